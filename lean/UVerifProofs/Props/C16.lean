/-
  Property C16 — text forms are exact and round-trip.
  The models live in UVerif/Model/Text*.lean (functions on `List Char`, transcribed from the C++), the helper
  lemmas in UVerifProofs/Lemmas/Text*.lean.  Every theorem below quantifies over ALL widths / operands; where the
  code violates the property the statement carries the decidable guard under which it holds and a
  `…_counterexample` proves the negation of the unguarded statement at a concrete witness.
  After the repairs of D18 (to_hex hexit count), D19 (operator<< working type), D20 (hex parse of a partial top byte),
  the hex sign and the two edecimal parse defects, the models are the repaired code and the former guards
  `4 ∣ nbits`, `8 ∣ nbits`, `10^k < 2^nbits`, "shorter than the width", "fresh object" are gone; the former
  counterexamples are kept as positive regression anchors `…_cfg_…` at the same witnesses.
-/
import UVerifProofs.Lemmas.TextFloat
import UVerifProofs.Lemmas.TextPosit
import UVerifProofs.Lemmas.TextInteger
import UVerifProofs.Lemmas.TextDecimal
import UVerifProofs.Lemmas.TextOstream
import UVerifProofs.Lemmas.TextEint
import UVerifProofs.Lemmas.TextFixpntDec
import UVerifProofs.Lemmas.TextEdec
import UVerifProofs.Lemmas.TextIntRoundtrip
import UVerifProofs.Lemmas.TextMarked
import UVerifProofs.Lemmas.TextHexNeg
import UVerifProofs.Lemmas.TextPositParse

open UVerif UVerif.Text

/-! ## posit: `nbits.esxHEXp` -/

/-- the property as stated: every encoding of every configuration survives `hex_format` → `parse`. -/
def C16_posit_hex_roundtrip_full : Prop :=
  ∀ n es v : Nat, 2 ≤ n → v < 2 ^ n → positRoundTrip n es v = some v

/-- every width up to 64 bits — a multiple of 4 or not (to_hex prints ⌈nbits/4⌉ hexits since the D18 repair) —
    and `es ≤ 9` (the regex allows one `es` digit). The remaining guard `n ≤ 64` is real: `parse` extracts into a
    `uint64_t` (known finding text.posit.parse.wider_than_64, witness below). -/
theorem C16_posit_hex_roundtrip (n es v : Nat) (hn0 : 0 < n) (hn : n ≤ 64) (hes : es ≤ 9)
    (hv : v < 2 ^ n) : positRoundTrip n es v = some v :=
  positRoundTrip_le64 n es v hn0 hn hes hv

example : positRoundTrip 16 2 0xabcd = some 0xabcd :=
  C16_posit_hex_roundtrip 16 2 0xabcd (by decide) (by decide) (by decide) (by decide)
example : positRoundTrip 63 3 (2 ^ 62 + 5) = some (2 ^ 62 + 5) :=
  C16_posit_hex_roundtrip 63 3 (2 ^ 62 + 5) (by decide) (by decide) (by decide) (by decide)

/-- `parse` / `operator>>` of ANY text of the posit form written for the same width — hex digits in either case,
    with or without `0x`, value below 2^64 — yields that value reduced to nbits bits (every nbits < 2^32, es ≤ 9). -/
theorem C16_posit_parse_text (n es : Nat) (hs : List Char) (V : Nat) (pfx : Bool) (hn : n < 2 ^ 32) (hes : es ≤ 9)
    (hne : hs ≠ []) (hh : ∀ c ∈ hs, isHexDigit c = true) (hV : hexStrVal? hs 0 = some V) (hfit : V < 2 ^ 64) :
    positParse n (natToDec n ++ ('.' :: digitChar es :: 'x' :: ((if pfx then ['0', 'x'] else []) ++ hs ++ ['p'])))
      = some (V % 2 ^ n) :=
  positParse_text n es hs V pfx hn hes hne hh hV hfit

example : positParse 32 "32.2x80000000p".toList = some 0x80000000 := by decide

/-- regression anchor (a test) at the former D18 witness: posit<5,1>, encoding 0x1f prints as `5.1x0x1fp` and reads
    back as 0x1f. -/
theorem C16_posit_hex_roundtrip_cfg_5_1 : positRoundTrip 5 1 0x1f = some 0x1f := by decide

/-- the text printed for posit<5,1> 0x1f, character by character. -/
theorem C16_posit_hex_format_cfg_5_1 : positHexFormat 5 1 0x1f = ['5', '.', '1', 'x', '0', 'x', '1', 'f', 'p'] := by decide

/-- widths that are a multiple of 4 no longer carry a redundant leading hexit. -/
theorem C16_posit_hex_format_cfg_8_0 : positHexFormat 8 0 0x40 = ['8', '.', '0', 'x', '0', 'x', '4', '0', 'p'] := by decide

/-- posit wider than 64 bits: the hex field overflows the `uint64_t` extraction (not repaired: known finding). -/
theorem C16_posit_hex_roundtrip_wide_counterexample : positRoundTrip 80 2 (2 ^ 79) = some (2 ^ 64 - 1) := by decide

/-- so the unguarded statement is still false — because of the widths above 64 bits only. -/
theorem C16_posit_hex_roundtrip_full_false : ¬ C16_posit_hex_roundtrip_full := by
  intro h
  have := h 80 2 (2 ^ 79) (by decide) (by decide)
  rw [C16_posit_hex_roundtrip_wide_counterexample] at this
  exact absurd this (by decide)

/-! ## cfloat / fixpnt: `0b…` -/

theorem C16_cfloat_bin_roundtrip (nbits es v : Nat) (hcfg : es + 1 ≤ nbits) (hv : v < 2 ^ nbits) :
    cfloatAssign nbits es (cfloatToBinary nbits es v) = v :=
  cfloatAssign_toBinary nbits es v hcfg hv

example : cfloatAssign 8 2 (cfloatToBinary 8 2 0xa5) = 0xa5 := C16_cfloat_bin_roundtrip 8 2 0xa5 (by decide) (by decide)
example : cfloatToBinary 8 2 0xa5 = ['0', 'b', '1', '.', '0', '1', '.', '0', '0', '1', '0', '1'] := by decide

theorem C16_fixpnt_bin_roundtrip (nbits rbits v : Nat) (hcfg : rbits ≤ nbits) (hv : v < 2 ^ nbits) :
    fixpntAssign nbits rbits (fixpntToBinary nbits rbits v) = some v :=
  fixpntAssign_toBinary nbits rbits v hcfg hv

example : fixpntAssign 8 8 (fixpntToBinary 8 8 0xa5) = some 0xa5 := C16_fixpnt_bin_roundtrip 8 8 0xa5 (by decide) (by decide)
example : fixpntToBinary 8 8 0xa5 = ['0', 'b', '0', '.', '1', '0', '1', '0', '0', '1', '0', '1'] := by decide

/-- the nibble-marked forms `to_binary(x, true)` (a `'` every four bits) round-trip too: both scanners skip `'`. -/
theorem C16_cfloat_bin_roundtrip_marked (nbits es v : Nat) (hcfg : es + 1 ≤ nbits) (hv : v < 2 ^ nbits) :
    cfloatAssign nbits es (cfloatToBinaryMarked nbits es v) = v :=
  cfloatAssign_toBinaryMarked nbits es v hcfg hv

theorem C16_fixpnt_bin_roundtrip_marked (nbits rbits v : Nat) (hcfg : rbits ≤ nbits) (hv : v < 2 ^ nbits) :
    fixpntAssign nbits rbits (fixpntToBinaryMarked nbits rbits v) = some v :=
  fixpntAssign_toBinaryMarked nbits rbits v hcfg hv

example : cfloatToBinaryMarked 16 5 0xabcd = "0b1.0'1010.11'1100'1101".toList := by decide

/-! ## integer: `0x…` -/

def C16_integer_hex_roundtrip_full : Prop :=
  ∀ n v : Nat, 0 < n → v < 2 ^ n → integerParse n (integerToHex n v) = some v

/-- every width: the scanner reads ⌈nbits/8⌉ bytes and clips the top one at the width (D20 repaired). -/
theorem C16_integer_hex_roundtrip (n v : Nat) (hn : 0 < n) (hv : v < 2 ^ n) :
    integerParse n (integerToHex n v) = some v :=
  integerParse_toHex n v hn hv

theorem C16_integer_hex_roundtrip_full_holds : C16_integer_hex_roundtrip_full :=
  fun n v hn hv => C16_integer_hex_roundtrip n v hn hv

example : integerParse 16 (integerToHex 16 0xabcd) = some 0xabcd := C16_integer_hex_roundtrip 16 0xabcd (by decide) (by decide)
example : integerParse 7 (integerToHex 7 0x55) = some 0x55 := C16_integer_hex_roundtrip 7 0x55 (by decide) (by decide)

/-- `to_hex` itself (shared nibble loop of integer, cfloat and fixpnt) is lossless for EVERY width: the digits read
    back as the encoding. -/
theorem C16_to_hex_lossless (n v : Nat) (hn : 0 < n) (hv : v < 2 ^ n) :
    hexStrVal? ((integerToHex n v).drop 2) 0 = some v := toHex_lossless n v hn hv

/-- regression anchors (tests) at the former D20 witnesses: integer<12> `0x710` (1808) reads back as 0x710; `0x100`
    reads as 0x100 in integer<9>; a digit above the width is clipped (`0xfff0` in integer<12> is 0xff0). -/
theorem C16_integer_hex_roundtrip_cfg_12 : integerParse 12 (integerToHex 12 0x710) = some 0x710 := by decide
theorem C16_integer_parse_hex_cfg_9 : integerParse 9 ['0', 'x', '1', '0', '0'] = some 0x100 := by decide
theorem C16_integer_parse_hex_cfg_12_clip : integerParse 12 ['0', 'x', 'f', 'f', 'f', '0'] = some 0xff0 := by decide

/-! ## decimal output is the exact decimal expansion -/

/-- the digit list that all printers are proved to emit: it denotes the value, consists of decimal digits, and has
    no leading zero (zero itself is the single digit 0). -/
theorem C16_decimal_exact (v : Nat) :
    digitsToNat (natDigits v) = v ∧ (∀ d ∈ natDigits v, d < 10) ∧ (v ≠ 0 → (natDigits v).head? ≠ some 0) ∧ natDigits v ≠ [] :=
  ⟨digitsToNat_natDigits v, natDigits_allDigits v, natDigits_head v, natDigits_ne_nil v⟩

example : natToDec 1808 = ['1', '8', '0', '8'] := by decide
example : intToDec (-42) = ['-', '4', '2'] := by decide

/-- `support::add` on canonical digit vectors is addition (used by every add-and-double printer). -/
theorem C16_decimal_add_exact (x y : Nat) : decAdd (decOfNat x) (decOfNat y) = decOfNat (x + y) := decAdd_canon x y

/-- integer `to_string` / `convert_to_decimal_string` (support::decimal path): every width, every encoding. -/
theorem C16_decimal_exact_integer (nbits v : Nat) (hn : 0 < nbits) (hv : v < 2 ^ nbits) :
    integerToDecimalString nbits v = intToDec (toSigned nbits v) :=
  integerToDecimalString_exact nbits v hn hv

def C16_decimal_exact_integer_ostream_full : Prop :=
  ∀ nbits w v : Nat, (w = 8 ∨ w = 16 ∨ w = 32 ∨ w = 64) → 0 < nbits → v < 2 ^ nbits →
    integerOstream nbits w v = some (intToDec (toSigned nbits v))

/-- integer `operator<<` (blocks of 10^k digits): exact for every width, every block width, every encoding — the
    working type holds `10^k` whatever nbits is (D19 repaired). In particular the output is independent of the
    BlockType (C12). -/
theorem C16_decimal_exact_integer_ostream (nbits w v : Nat) (hw : w = 8 ∨ w = 16 ∨ w = 32 ∨ w = 64)
    (hn : 0 < nbits) (hv : v < 2 ^ nbits) :
    integerOstream nbits w v = some (intToDec (toSigned nbits v)) :=
  integerOstream_exact nbits w v hw hn hv

theorem C16_decimal_exact_integer_ostream_full_holds : C16_decimal_exact_integer_ostream_full :=
  fun nbits w v hw hn hv => C16_decimal_exact_integer_ostream nbits w v hw hn hv

example : integerOstream 12 8 1808 = some ['1', '8', '0', '8'] := by
  rw [C16_decimal_exact_integer_ostream 12 8 1808 (by decide) (by decide) (by decide)]; decide

/-- regression anchor (a test) at the former D19 witness: integer<12,uint16_t>(1808) prints `1808`. -/
theorem C16_decimal_exact_integer_ostream_cfg_12_u16 : integerOstream 12 16 1808 = some ['1', '8', '0', '8'] := by decide

/-- the same value through two block widths: the same text. -/
theorem C16_decimal_integer_ostream_blocktype (nbits w w' v : Nat) (hw : w = 8 ∨ w = 16 ∨ w = 32 ∨ w = 64)
    (hw' : w' = 8 ∨ w' = 16 ∨ w' = 32 ∨ w' = 64) (hn : 0 < nbits) (hv : v < 2 ^ nbits) :
    integerOstream nbits w v = integerOstream nbits w' v := by
  rw [C16_decimal_exact_integer_ostream nbits w v hw hn hv, C16_decimal_exact_integer_ostream nbits w' v hw' hn hv]

/-- einteger `operator<<`: every limb width, every normalised limb vector of any length. -/
theorem C16_decimal_exact_einteger (w : Nat) (hw : w = 8 ∨ w = 16 ∨ w = 32) (neg : Bool) (limbs : List Nat)
    (hnorm : NormLimbs (2 ^ w) limbs) :
    eintOstream w neg limbs
      = intToDec (if neg then -((leVal (2 ^ w) limbs : Nat) : Int) else ((leVal (2 ^ w) limbs : Nat) : Int)) :=
  eintOstream_exact w hw neg limbs hnorm

example : eintOstream 8 true [1, 2, 3] = ['-', '1', '9', '7', '1', '2', '1'] := by decide

/-- edecimal built from a native integer and printed with `operator<<`. -/
theorem C16_decimal_exact_edecimal (x : Int) (hx : x.natAbs < 2 ^ 64) : edecOfInt x = intToDec x := edecOfInt_exact x hx

/-- fixpnt `convert_to_decimal_string` / `operator<<`: sign, integer part, `.` and exactly `rbits` fraction digits
    (those of frac·5^rbits) — the finite expansion of raw/2^rbits, for every configuration and encoding. -/
theorem C16_decimal_exact_fixpnt (nbits rbits v : Nat) (hcfg : rbits ≤ nbits) (hn : 0 < nbits) (hv : v < 2 ^ nbits) :
    fixpntToDecimalString nbits rbits v = fixpntDecimalSpec nbits rbits v :=
  fixpntToDecimalString_exact nbits rbits v hcfg hn hv

/-- what the specification text denotes: (integer digits)·10^r + (fraction digits) = |raw|·5^r, i.e. |raw|/2^r. -/
theorem C16_decimal_exact_fixpnt_value (mag r : Nat) :
    mag / 2 ^ r * 10 ^ r + mag % 2 ^ r * 5 ^ r = mag * 5 ^ r ∧ mag % 2 ^ r * 5 ^ r < 10 ^ r :=
  fixpntDecimalSpec_value mag r

example : fixpntToDecimalString 8 4 0xa5 = ['-', '5', '.', '6', '8', '7', '5'] := by
  rw [C16_decimal_exact_fixpnt 8 4 0xa5 (by decide) (by decide) (by decide)]; decide

/-- `support::mul` on canonical digit vectors is multiplication (used by the fixpnt fraction printer). -/
theorem C16_decimal_mul_exact (x y : Nat) : decMul (decOfNat x) (decOfNat y) = decOfNat (x * y) := decMul_canon x y

/-- edecimal: parsing the exact decimal expansion and printing it returns the same text — into ANY object, whatever
    sign it held before (`neg0`). -/
theorem C16_edecimal_parse_print (neg0 : Bool) (x : Int) : edecParsePrint neg0 (intToDec x) = some (intToDec x) :=
  edecParsePrint_canonical neg0 x

/-- edecimal: a decimal text with an optional sign and ANY number of redundant leading zeros prints as the exact
    decimal expansion of the value it denotes (no padding, `-0…0` is `0`). -/
theorem C16_edecimal_parse_print_padded (neg0 neg plus : Bool) (k m : Nat) :
    edecParsePrint neg0 ((if neg then ['-'] else if plus then ['+'] else []) ++ (List.replicate k '0' ++ natToDec m))
      = some (intToDec (if neg then -(m : Int) else (m : Int))) :=
  edecParsePrint_text neg0 neg plus k m

/-- regression anchors (tests) at the former witnesses: `5` into an object that held a negative value, `-0`, `007`. -/
theorem C16_edecimal_parse_cfg_sticky_sign : edecParsePrint true ['5'] = some ['5'] := by decide
theorem C16_edecimal_parse_cfg_negative_zero : edecParsePrint false ['-', '0'] = some ['0'] := by decide
theorem C16_edecimal_parse_cfg_padding : edecParsePrint true ['0', '0', '7'] = some ['7'] := by decide

/-! ## parsing digit strings -/

/-- an unsigned decimal digit string (not captured by the octal regex) yields its value mod 2^nbits. -/
theorem C16_parse_decimal (nbits : Nat) (s : List Char) (hd : ∀ c ∈ s, isDigit c = true)
    (hform : integerForm s = .decimal) : integerParse nbits s = some (decStrVal s % 2 ^ nbits) :=
  integerParse_decimal nbits s hd hform

/-- with a leading `-`: the two's complement of that (`negN` is the additive inverse mod 2^nbits). -/
theorem C16_parse_decimal_neg (nbits : Nat) (s : List Char) (hd : ∀ c ∈ s, isDigit c = true)
    (hform : integerForm ('-' :: s) = .decimal) :
    integerParse nbits ('-' :: s) = some (negN nbits (decStrVal s % 2 ^ nbits)) ∧
      (negN nbits (decStrVal s % 2 ^ nbits) + decStrVal s % 2 ^ nbits) % 2 ^ nbits = 0 :=
  ⟨integerParse_decimal_neg nbits s hd hform, negN_add_self nbits _⟩

/-- digit strings that do not start with `0` are decimal texts (so the guard above is satisfiable by rule). -/
theorem C16_parse_decimal_form (c : Char) (cs : List Char) (hc : isDigit c = true) (hc0 : c ≠ '0')
    (hd : ∀ d ∈ cs, isDigit d = true) : integerForm (c :: cs) = .decimal := integerForm_decimal c cs hc hc0 hd

example : integerParse 8 ['3', '0', '0'] = some 44 := by
  rw [C16_parse_decimal 8 ['3', '0', '0'] (by decide) (by decide)]; decide

/-- integer decimal round trip, every width: `parse(to_string(x)) = x`. -/
theorem C16_integer_decimal_roundtrip (nbits v : Nat) (hn : 0 < nbits) (hv : v < 2 ^ nbits) :
    integerParse nbits (integerToDecimalString nbits v) = some v :=
  integerParse_toDecimalString nbits v hn hv

example : integerParse 12 (integerToDecimalString 12 0x800) = some 0x800 :=
  C16_integer_decimal_roundtrip 12 0x800 (by decide) (by decide)
example : integerToDecimalString 12 0x800 = ['-', '2', '0', '4', '8'] := by decide

/-- leading zero + octal digits: taken for octal, which is a stub — `parse` returns false. -/
theorem C16_parse_decimal_octal_counterexample : integerParse 8 ['0', '1', '7'] = none := by decide

/-- an unsigned `0x…` digit string of ANY length yields its value mod 2^nbits — every width. -/
theorem C16_parse_hex (nbits : Nat) (hs : List Char) (V : Nat) (hne : hs ≠ [])
    (hh : ∀ c ∈ hs, isHexDigit c = true) (hV : hexStrVal? hs 0 = some V) :
    integerParse nbits ('0' :: 'x' :: hs) = some (V % 2 ^ nbits) :=
  integerParse_hex nbits hs V hne hh hV

example : integerParse 8 ['0', 'x', '1', 'a', 'B'] = some 0xab := by
  rw [C16_parse_hex 8 ['1', 'a', 'B'] 0x1ab (by decide) (by decide) (by decide)]; decide
example : integerParse 9 ['0', 'x', '1', 'a', 'B'] = some 0x1ab := by
  rw [C16_parse_hex 9 ['1', 'a', 'B'] 0x1ab (by decide) (by decide) (by decide)]; decide

/-- a leading `-` is honoured whatever the length of the digit string: the result is the two's complement of the
    magnitude (mod 2^nbits) — every width; an explicit `+` changes nothing. -/
theorem C16_parse_hex_neg (nbits : Nat) (hs : List Char) (V : Nat) (hne : hs ≠ [])
    (hh : ∀ c ∈ hs, isHexDigit c = true) (hV : hexStrVal? hs 0 = some V) :
    integerParse nbits ('-' :: '0' :: 'x' :: hs) = some (negN nbits V) ∧
      (negN nbits V + V) % 2 ^ nbits = 0 :=
  ⟨integerParse_hex_neg nbits hs V hne hh hV, negN_add_self nbits V⟩

theorem C16_parse_hex_pos (nbits : Nat) (hs : List Char) (V : Nat) (hne : hs ≠ [])
    (hh : ∀ c ∈ hs, isHexDigit c = true) (hV : hexStrVal? hs 0 = some V) :
    integerParse nbits ('+' :: '0' :: 'x' :: hs) = some (V % 2 ^ nbits) :=
  integerParse_hex_pos nbits hs V hne hh hV

example : integerParse 16 ['-', '0', 'x', 'a', 'b', 'c'] = some 0xf544 := by
  rw [(C16_parse_hex_neg 16 ['a', 'b', 'c'] 0xabc (by decide) (by decide) (by decide)).1]; decide

/-- regression anchor (a test) at the former witness: a `-` in front of a full-width digit string. -/
theorem C16_parse_hex_sign_cfg_8 : integerParse 8 ['-', '0', 'x', '0', '1'] = some 0xff := by decide
