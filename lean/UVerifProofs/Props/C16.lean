/-
  Property C16 — text forms are exact and round-trip.
  The models live in UVerif/Model/Text*.lean (functions on `List Char`, transcribed from the C++), the helper
  lemmas in UVerifProofs/Lemmas/Text*.lean.  Every theorem below quantifies over ALL widths / operands; where the
  pinned code violates the property the statement carries the decidable guard under which it holds and a
  `…_counterexample` proves the negation of the unguarded statement at a concrete witness.
-/
import UVerifProofs.Lemmas.TextFloat
import UVerifProofs.Lemmas.TextPosit
import UVerifProofs.Lemmas.TextInteger
import UVerifProofs.Lemmas.TextDecimal
import UVerifProofs.Lemmas.TextOstream
import UVerifProofs.Lemmas.TextEint
import UVerifProofs.Lemmas.TextFixpntDec
import UVerifProofs.Lemmas.TextEdec
import UVerifProofs.Lemmas.TextIntRoundtrip
import UVerifProofs.Lemmas.TextMarked
import UVerifProofs.Lemmas.TextHexNeg
import UVerifProofs.Lemmas.TextPositParse

open UVerif UVerif.Text

/-! ## posit: `nbits.esxHEXp` -/

/-- the property as stated: every encoding of every configuration survives `hex_format` → `parse`. -/
def C16_posit_hex_roundtrip_full : Prop :=
  ∀ n es v : Nat, 2 ≤ n → v < 2 ^ n → positRoundTrip n es v = some v

/-- what holds of the pinned code: widths that are a multiple of 4 (to_hex prints all nibbles), at most 64 bits
    (`parse` extracts into a `uint64_t`), `es ≤ 9` (the regex allows one `es` digit). -/
theorem C16_posit_hex_roundtrip_partial (n es v : Nat) (h4 : 4 ∣ n) (hn0 : 0 < n) (hn : n ≤ 64) (hes : es ≤ 9)
    (hv : v < 2 ^ n) : positRoundTrip n es v = some v :=
  positRoundTrip_aligned n es v h4 hn0 hn hes hv

example : positRoundTrip 16 2 0xabcd = some 0xabcd :=
  C16_posit_hex_roundtrip_partial 16 2 0xabcd (by decide) (by decide) (by decide) (by decide) (by decide)

/-- `parse` / `operator>>` of ANY text of the posit form written for the same width — hex digits in either case,
    with or without `0x`, value below 2^64 — yields that value reduced to nbits bits (every nbits < 2^32, es ≤ 9). -/
theorem C16_posit_parse_text (n es : Nat) (hs : List Char) (V : Nat) (pfx : Bool) (hn : n < 2 ^ 32) (hes : es ≤ 9)
    (hne : hs ≠ []) (hh : ∀ c ∈ hs, isHexDigit c = true) (hV : hexStrVal? hs 0 = some V) (hfit : V < 2 ^ 64) :
    positParse n (natToDec n ++ ('.' :: digitChar es :: 'x' :: ((if pfx then ['0', 'x'] else []) ++ hs ++ ['p'])))
      = some (V % 2 ^ n) :=
  positParse_text n es hs V pfx hn hes hne hh hV hfit

example : positParse 32 "32.2x80000000p".toList = some 0x80000000 := by decide

/-- D18: posit<5,1>, encoding 0x1f prints as `5.1x0xfp` and reads back as 0x0f. -/
theorem C16_posit_hex_roundtrip_counterexample : positRoundTrip 5 1 0x1f = some 0x0f := by decide

theorem C16_posit_hex_roundtrip_full_false : ¬ C16_posit_hex_roundtrip_full := by
  intro h
  have := h 5 1 0x1f (by decide) (by decide)
  rw [C16_posit_hex_roundtrip_counterexample] at this
  exact absurd this (by decide)

/-- the text printed for posit<5,1> 0x1f, character by character. -/
theorem C16_posit_hex_format_cfg_5_1 : positHexFormat 5 1 0x1f = ['5', '.', '1', 'x', '0', 'x', 'f', 'p'] := by decide

/-! ## cfloat / fixpnt: `0b…` -/

theorem C16_cfloat_bin_roundtrip (nbits es v : Nat) (hcfg : es + 1 ≤ nbits) (hv : v < 2 ^ nbits) :
    cfloatAssign nbits es (cfloatToBinary nbits es v) = v :=
  cfloatAssign_toBinary nbits es v hcfg hv

example : cfloatAssign 8 2 (cfloatToBinary 8 2 0xa5) = 0xa5 := C16_cfloat_bin_roundtrip 8 2 0xa5 (by decide) (by decide)
example : cfloatToBinary 8 2 0xa5 = ['0', 'b', '1', '.', '0', '1', '.', '0', '0', '1', '0', '1'] := by decide

theorem C16_fixpnt_bin_roundtrip (nbits rbits v : Nat) (hcfg : rbits ≤ nbits) (hv : v < 2 ^ nbits) :
    fixpntAssign nbits rbits (fixpntToBinary nbits rbits v) = some v :=
  fixpntAssign_toBinary nbits rbits v hcfg hv

example : fixpntAssign 8 8 (fixpntToBinary 8 8 0xa5) = some 0xa5 := C16_fixpnt_bin_roundtrip 8 8 0xa5 (by decide) (by decide)
example : fixpntToBinary 8 8 0xa5 = ['0', 'b', '0', '.', '1', '0', '1', '0', '0', '1', '0', '1'] := by decide

/-- the nibble-marked forms `to_binary(x, true)` (a `'` every four bits) round-trip too: both scanners skip `'`. -/
theorem C16_cfloat_bin_roundtrip_marked (nbits es v : Nat) (hcfg : es + 1 ≤ nbits) (hv : v < 2 ^ nbits) :
    cfloatAssign nbits es (cfloatToBinaryMarked nbits es v) = v :=
  cfloatAssign_toBinaryMarked nbits es v hcfg hv

theorem C16_fixpnt_bin_roundtrip_marked (nbits rbits v : Nat) (hcfg : rbits ≤ nbits) (hv : v < 2 ^ nbits) :
    fixpntAssign nbits rbits (fixpntToBinaryMarked nbits rbits v) = some v :=
  fixpntAssign_toBinaryMarked nbits rbits v hcfg hv

example : cfloatToBinaryMarked 16 5 0xabcd = "0b1.0'1010.11'1100'1101".toList := by decide

/-! ## integer: `0x…` -/

def C16_integer_hex_roundtrip_full : Prop :=
  ∀ n v : Nat, 0 < n → v < 2 ^ n → integerParse n (integerToHex n v) = some v

/-- holds when the width is a whole number of bytes (the scanner reads `nbits/8` bytes). -/
theorem C16_integer_hex_roundtrip (n v : Nat) (h8 : 8 ∣ n) (hn : 0 < n) (hv : v < 2 ^ n) :
    integerParse n (integerToHex n v) = some v :=
  integerParse_toHex n v h8 hn hv

example : integerParse 16 (integerToHex 16 0xabcd) = some 0xabcd := C16_integer_hex_roundtrip 16 0xabcd (by decide) (by decide) (by decide)

/-- `to_hex` itself (shared nibble loop of integer, cfloat and fixpnt) is lossless for EVERY width: the digits read
    back as the encoding. (The loss on 8 ∤ nbits is in `parse`, not in the printer.) -/
theorem C16_to_hex_lossless (n v : Nat) (hn : 0 < n) (hv : v < 2 ^ n) :
    hexStrVal? ((integerToHex n v).drop 2) 0 = some v := toHex_lossless n v hn hv

/-- D20: integer<12>: `0x710` (1808) reads back as 0x10; `0x100` reads as 0 in integer<9>. -/
theorem C16_integer_hex_roundtrip_counterexample : integerParse 12 (integerToHex 12 0x710) = some 0x10 := by decide
theorem C16_integer_parse_hex_counterexample : integerParse 9 ['0', 'x', '1', '0', '0'] = some 0 := by decide

theorem C16_integer_hex_roundtrip_full_false : ¬ C16_integer_hex_roundtrip_full := by
  intro h
  have := h 12 0x710 (by decide) (by decide)
  rw [C16_integer_hex_roundtrip_counterexample] at this
  exact absurd this (by decide)

/-! ## decimal output is the exact decimal expansion -/

/-- the digit list that all printers are proved to emit: it denotes the value, consists of decimal digits, and has
    no leading zero (zero itself is the single digit 0). -/
theorem C16_decimal_exact (v : Nat) :
    digitsToNat (natDigits v) = v ∧ (∀ d ∈ natDigits v, d < 10) ∧ (v ≠ 0 → (natDigits v).head? ≠ some 0) ∧ natDigits v ≠ [] :=
  ⟨digitsToNat_natDigits v, natDigits_allDigits v, natDigits_head v, natDigits_ne_nil v⟩

example : natToDec 1808 = ['1', '8', '0', '8'] := by decide
example : intToDec (-42) = ['-', '4', '2'] := by decide

/-- `support::add` on canonical digit vectors is addition (used by every add-and-double printer). -/
theorem C16_decimal_add_exact (x y : Nat) : decAdd (decOfNat x) (decOfNat y) = decOfNat (x + y) := decAdd_canon x y

/-- integer `to_string` / `convert_to_decimal_string` (support::decimal path): every width, every encoding. -/
theorem C16_decimal_exact_integer (nbits v : Nat) (hn : 0 < nbits) (hv : v < 2 ^ nbits) :
    integerToDecimalString nbits v = intToDec (toSigned nbits v) :=
  integerToDecimalString_exact nbits v hn hv

def C16_decimal_exact_integer_ostream_full : Prop :=
  ∀ nbits w v : Nat, (w = 8 ∨ w = 16 ∨ w = 32 ∨ w = 64) → 0 < nbits → v < 2 ^ nbits →
    integerOstream nbits w v = some (intToDec (toSigned nbits v))

/-- integer `operator<<` (blocks of 10^k digits): exact when `10^k < 2^nbits`, for every block width. In
    particular the output is then independent of the BlockType. -/
theorem C16_decimal_exact_integer_ostream_partial (nbits w v : Nat) (hw : w = 8 ∨ w = 16 ∨ w = 32 ∨ w = 64)
    (hn : 0 < nbits) (hfit : 10 ^ digitsInBlock10 w < 2 ^ nbits) (hv : v < 2 ^ nbits) :
    integerOstream nbits w v = some (intToDec (toSigned nbits v)) :=
  integerOstream_exact nbits w v hw hn hfit hv

example : integerOstream 12 8 1808 = some ['1', '8', '0', '8'] := by
  rw [C16_decimal_exact_integer_ostream_partial 12 8 1808 (by decide) (by decide) (by decide) (by decide)]; decide

/-- D19: integer<12,uint16_t>(1808) prints `10000` (block10 = 10000 wraps to 1808 in integer<13>). -/
theorem C16_decimal_exact_integer_ostream_counterexample : integerOstream 12 16 1808 = some ['1', '0', '0', '0', '0'] := by decide

theorem C16_decimal_exact_integer_ostream_full_false : ¬ C16_decimal_exact_integer_ostream_full := by
  intro h
  have := h 12 16 1808 (by decide) (by decide) (by decide)
  rw [C16_decimal_exact_integer_ostream_counterexample] at this
  exact absurd this (by decide)

/-- einteger `operator<<`: every limb width, every normalised limb vector of any length. -/
theorem C16_decimal_exact_einteger (w : Nat) (hw : w = 8 ∨ w = 16 ∨ w = 32) (neg : Bool) (limbs : List Nat)
    (hnorm : NormLimbs (2 ^ w) limbs) :
    eintOstream w neg limbs
      = intToDec (if neg then -((leVal (2 ^ w) limbs : Nat) : Int) else ((leVal (2 ^ w) limbs : Nat) : Int)) :=
  eintOstream_exact w hw neg limbs hnorm

example : eintOstream 8 true [1, 2, 3] = ['-', '1', '9', '7', '1', '2', '1'] := by decide

/-- edecimal built from a native integer and printed with `operator<<`. -/
theorem C16_decimal_exact_edecimal (x : Int) (hx : x.natAbs < 2 ^ 64) : edecOfInt x = intToDec x := edecOfInt_exact x hx

/-- fixpnt `convert_to_decimal_string` / `operator<<`: sign, integer part, `.` and exactly `rbits` fraction digits
    (those of frac·5^rbits) — the finite expansion of raw/2^rbits, for every configuration and encoding. -/
theorem C16_decimal_exact_fixpnt (nbits rbits v : Nat) (hcfg : rbits ≤ nbits) (hn : 0 < nbits) (hv : v < 2 ^ nbits) :
    fixpntToDecimalString nbits rbits v = fixpntDecimalSpec nbits rbits v :=
  fixpntToDecimalString_exact nbits rbits v hcfg hn hv

/-- what the specification text denotes: (integer digits)·10^r + (fraction digits) = |raw|·5^r, i.e. |raw|/2^r. -/
theorem C16_decimal_exact_fixpnt_value (mag r : Nat) :
    mag / 2 ^ r * 10 ^ r + mag % 2 ^ r * 5 ^ r = mag * 5 ^ r ∧ mag % 2 ^ r * 5 ^ r < 10 ^ r :=
  fixpntDecimalSpec_value mag r

example : fixpntToDecimalString 8 4 0xa5 = ['-', '5', '.', '6', '8', '7', '5'] := by
  rw [C16_decimal_exact_fixpnt 8 4 0xa5 (by decide) (by decide) (by decide)]; decide

/-- `support::mul` on canonical digit vectors is multiplication (used by the fixpnt fraction printer). -/
theorem C16_decimal_mul_exact (x y : Nat) : decMul (decOfNat x) (decOfNat y) = decOfNat (x * y) := decMul_canon x y

/-- edecimal: parsing the exact decimal expansion into a fresh object and printing it returns the same text. -/
theorem C16_edecimal_parse_print (x : Int) : edecParsePrint false (intToDec x) = some (intToDec x) :=
  edecParsePrint_canonical x

/-- …but the sign flag of a re-used object survives `parse` (`clear()` is `std::vector::clear`). -/
theorem C16_edecimal_parse_sticky_sign_counterexample : edecParsePrint true ['5'] = some ['-', '5'] := by decide

/-- integer `operator<<` depends on the BlockType on the pinned tree (C12): the same 12-bit value, two block widths. -/
theorem C16_decimal_integer_ostream_blocktype_counterexample : integerOstream 12 8 1808 ≠ integerOstream 12 16 1808 := by decide

/-- posit wider than 64 bits: the hex field overflows the `uint64_t` extraction even though `4 ∣ nbits`. -/
theorem C16_posit_hex_roundtrip_wide_counterexample : positRoundTrip 80 2 (2 ^ 79) = some (2 ^ 64 - 1) := by decide

/-! ## parsing digit strings -/

/-- an unsigned decimal digit string (not captured by the octal regex) yields its value mod 2^nbits. -/
theorem C16_parse_decimal (nbits : Nat) (s : List Char) (hd : ∀ c ∈ s, isDigit c = true)
    (hform : integerForm s = .decimal) : integerParse nbits s = some (decStrVal s % 2 ^ nbits) :=
  integerParse_decimal nbits s hd hform

/-- with a leading `-`: the two's complement of that (`negN` is the additive inverse mod 2^nbits). -/
theorem C16_parse_decimal_neg (nbits : Nat) (s : List Char) (hd : ∀ c ∈ s, isDigit c = true)
    (hform : integerForm ('-' :: s) = .decimal) :
    integerParse nbits ('-' :: s) = some (negN nbits (decStrVal s % 2 ^ nbits)) ∧
      (negN nbits (decStrVal s % 2 ^ nbits) + decStrVal s % 2 ^ nbits) % 2 ^ nbits = 0 :=
  ⟨integerParse_decimal_neg nbits s hd hform, negN_add_self nbits _⟩

/-- digit strings that do not start with `0` are decimal texts (so the guard above is satisfiable by rule). -/
theorem C16_parse_decimal_form (c : Char) (cs : List Char) (hc : isDigit c = true) (hc0 : c ≠ '0')
    (hd : ∀ d ∈ cs, isDigit d = true) : integerForm (c :: cs) = .decimal := integerForm_decimal c cs hc hc0 hd

example : integerParse 8 ['3', '0', '0'] = some 44 := by
  rw [C16_parse_decimal 8 ['3', '0', '0'] (by decide) (by decide)]; decide

/-- integer decimal round trip, every width: `parse(to_string(x)) = x`. -/
theorem C16_integer_decimal_roundtrip (nbits v : Nat) (hn : 0 < nbits) (hv : v < 2 ^ nbits) :
    integerParse nbits (integerToDecimalString nbits v) = some v :=
  integerParse_toDecimalString nbits v hn hv

example : integerParse 12 (integerToDecimalString 12 0x800) = some 0x800 :=
  C16_integer_decimal_roundtrip 12 0x800 (by decide) (by decide)
example : integerToDecimalString 12 0x800 = ['-', '2', '0', '4', '8'] := by decide

/-- leading zero + octal digits: taken for octal, which is a stub — `parse` returns false. -/
theorem C16_parse_decimal_octal_counterexample : integerParse 8 ['0', '1', '7'] = none := by decide

/-- an unsigned `0x…` digit string of ANY length yields its value mod 2^nbits when `8 ∣ nbits`. -/
theorem C16_parse_hex (nbits : Nat) (hs : List Char) (V : Nat) (h8 : 8 ∣ nbits) (hne : hs ≠ [])
    (hh : ∀ c ∈ hs, isHexDigit c = true) (hV : hexStrVal? hs 0 = some V) :
    integerParse nbits ('0' :: 'x' :: hs) = some (V % 2 ^ nbits) :=
  integerParse_hex nbits hs V h8 hne hh hV

example : integerParse 8 ['0', 'x', '1', 'a', 'B'] = some 0xab := by
  rw [C16_parse_hex 8 ['1', 'a', 'B'] 0x1ab (by decide) (by decide) (by decide) (by decide)]; decide

/-- a leading `-` is honoured when the digit string is SHORTER than the width (fewer than 2·(nbits/8) nibbles):
    the result is the two's complement of the magnitude… -/
theorem C16_parse_hex_neg_partial (nbits : Nat) (hs : List Char) (V : Nat) (h8 : 8 ∣ nbits) (hne : hs ≠ [])
    (hh : ∀ c ∈ hs, isHexDigit c = true) (hshort : hs.length < 2 * (nbits / 8)) (hV : hexStrVal? hs 0 = some V) :
    integerParse nbits ('-' :: '0' :: 'x' :: hs) = some (negN nbits V) :=
  integerParse_hex_neg nbits hs V h8 hne hh hshort hV

example : integerParse 16 ['-', '0', 'x', 'a', 'b', 'c'] = some 0xf544 := by
  rw [C16_parse_hex_neg_partial 16 ['a', 'b', 'c'] 0xabc (by decide) (by decide) (by decide) (by decide) (by decide)]; decide

/-- …whereas a `-` in front of a full-width digit string is never reached by the scanner. -/
theorem C16_parse_hex_sign_counterexample : integerParse 8 ['-', '0', 'x', '0', '1'] = some 1 := by decide
