/-
  Property C17 — sqrt is correctly rounded on small formats, faithful elsewhere, and total.
  Spec: UVerif.Spec.Sqrt (decided by squaring).  Models: UVerif.Model.Sqrt, UVerif.Model.FastPosit.
  The `decide` theorems below range over the tables that gen/extract_tables.py regenerates from
  include/universal/number/posit/math/sqrt_tables.hpp on every run: a changed table makes this module fail to build.
-/
import UVerif.Model.Sqrt
import UVerif.Spec.Sqrt
import UVerifProofs.Lemmas.Sqrt
import UVerifProofs.Lemmas.SqrtPosit

open UVerif UVerif.Posit UVerif.Fast UVerif.Generated UVerif.Sqrt

/-! ### the regenerated sqrt tables: every entry is the correctly rounded root (Posit-Standard midpoint, by squaring) -/

theorem C17_tables_correct_3_0 : ∀ a < 4, (positSqrtOk 3 0 a (tab posit_3_0_roots a)).1 = true := by decide +kernel
theorem C17_tables_correct_4_0 : ∀ a < 8, (positSqrtOk 4 0 a (tab posit_4_0_roots a)).1 = true := by decide +kernel
theorem C17_tables_correct_5_0 : ∀ a < 16, (positSqrtOk 5 0 a (tab posit_5_0_roots a)).1 = true := by decide +kernel
theorem C17_tables_correct_8_0 : ∀ a < 128, (positSqrtOk 8 0 a (tab posit_8_0_roots a)).1 = true := by decide +kernel
theorem C17_tables_correct_8_1 : ∀ a < 128, (positSqrtOk 8 1 a (tab posit_8_1_roots a)).1 = true := by decide +kernel

/-- the <3,1> table after the repair of D1 (fix commit b4a3837: entry 1 is 2 — sqrt(0.25) = 0.5 is exactly the Standard midpoint
    (the 4-bit posit 0011) between 0.25 (encoding 1, odd) and 1 (encoding 2, even), so the tie goes to encoding 2). -/
theorem C17_tables_correct_3_1 : ∀ a < 4, (positSqrtOk 3 1 a (tab posit_3_1_roots a)).1 = true := by decide +kernel
/-- the value the pinned snapshot held in entry 1 (encoding 1 = 0.25) is NOT the correctly rounded root: the table
    theorem above is sensitive to that entry -/
theorem C17_tables_3_1_old_entry_rejected : (positSqrtOk 3 1 1 1).1 = false ∧ (positSqrtOk 3 1 1 2).1 = true := by decide +kernel

/-- the tables have the size the look-up assumes (one entry per non-negative encoding) -/
theorem C17_tables_sizes :
    posit_3_0_roots.size = 4 ∧ posit_3_1_roots.size = 4 ∧ posit_4_0_roots.size = 8 ∧ posit_5_0_roots.size = 16 ∧
    posit_8_0_roots.size = 128 ∧ posit_8_1_roots.size = 128 := by decide +kernel

/-! ### integer sqrt: floor of the root, for every argument (unbounded) -/

/-- `floor_sqrt` returns r with r² ≤ a < (r+1)², for every natural a (loop invariant `floorSqrtLoop_spec`). -/
theorem C17_isqrt_floor (a : Nat) : intSqrtOk a (intSqrt a) = true := by
  unfold intSqrtOk
  have h := intSqrt_bounds a
  simp only [Bool.and_eq_true, decide_eq_true_eq]
  exact h

/-- integer sqrt is monotone (all arguments) -/
theorem C17_isqrt_monotone (a b : Nat) (h : a ≤ b) : intSqrt a ≤ intSqrt b := by
  have ha := (intSqrt_bounds a).1
  have hb := (intSqrt_bounds b).2
  have : intSqrt a * intSqrt a < (intSqrt b + 1) * (intSqrt b + 1) := by omega
  have := Nat.mul_self_lt_mul_self_iff.mp this
  omega

/-- perfect squares give exact roots (all k) -/
theorem C17_isqrt_perfect_squares (k : Nat) : intSqrt (k * k) = k := by
  have h1 := (intSqrt_bounds (k * k)).1
  have h2 := (intSqrt_bounds (k * k)).2
  have a1 := Nat.mul_self_le_mul_self_iff.mp h1
  have a2 := Nat.mul_self_lt_mul_self_iff.mp h2
  omega
example : intSqrt 1000000 = 1000 ∧ intSqrt 999999 = 999 := by decide +kernel

/-! ### special values -/

/-- the generic fallback (no table): a set sign bit — negative values and NaR — gives NaR, for every configuration -/
theorem C17_special_negative_generic (n es a : Nat) (hn : 2 ≤ n) (hlo : 2 ^ (n - 1) ≤ a) (hhi : a < 2 ^ n)
    (ht : rootsTable n es = none) : positSqrtGeneric n es a = 2 ^ (n - 1) := by
  unfold positSqrtGeneric
  have hmod : a % 2 ^ n = a := Nat.mod_eq_of_lt hhi
  simp only [hmod, ht]
  have hbit : a.testBit (n - 1) = true := by
    rw [Nat.testBit_eq_decide_div_mod_eq]
    have h2 : 2 ^ n = 2 * 2 ^ (n - 1) := by
      have : n = (n - 1) + 1 := by omega
      conv => lhs; rw [this, Nat.pow_succ]
      omega
    have hq : a / 2 ^ (n - 1) = 1 := by
      apply Nat.div_eq_of_lt_le
      · omega
      · omega
    simp [hq]
  simp [hbit]

/-- the integer-only fast sqrt of posit<16,1>: every argument with the sign bit set (negative or NaR) gives NaR -/
theorem C17_special_negative_fast_16_1 (a : Nat) (h1 : 0x8000 ≤ a) (h2 : a < 0x10000) : sqrt_16_1 a = 0x8000 := by
  unfold sqrt_16_1 u16
  have hm : a % 2 ^ 16 = a := Nat.mod_eq_of_lt (by simpa using h2)
  have hand : a &&& 0x8000 = 0x8000 := by
    have := and_top_bit 15 a (by simpa using h1) (by simpa using h2)
    simpa using this
  simp only [hm, hand]
  simp

/-- … and of posit<32,2> -/
theorem C17_special_negative_fast_32_2 (a : Nat) (h1 : 0x80000000 ≤ a) (h2 : a < 0x100000000) : sqrt_32_2 a = 0x80000000 := by
  unfold sqrt_32_2 u32
  have hm : a % 2 ^ 32 = a := Nat.mod_eq_of_lt (by simpa using h2)
  have hand : a &&& 0x80000000 = 0x80000000 := by
    have := and_top_bit 31 a (by simpa using h1) (by simpa using h2)
    simpa using this
  simp only [hm, hand]
  simp

/-- the table-driven configurations: every encoding with the sign bit set (negative or NaR) gives NaR -/
theorem C17_special_negative_tables :
    (∀ a < 8, 4 ≤ a → positSqrtGeneric 3 0 a = 4 ∧ positSqrtGeneric 3 1 a = 4) ∧
    (∀ a < 16, 8 ≤ a → positSqrtGeneric 4 0 a = 8) ∧ (∀ a < 32, 16 ≤ a → positSqrtGeneric 5 0 a = 16) ∧
    (∀ a < 256, 128 ≤ a → positSqrtGeneric 8 0 a = 128 ∧ positSqrtGeneric 8 1 a = 128) := by decide +kernel

/-- sqrt(0) = 0 in every build and configuration that has its own routine -/
theorem C17_special_zero :
    positSqrtGeneric 3 0 0 = 0 ∧ positSqrtGeneric 3 1 0 = 0 ∧ positSqrtGeneric 4 0 0 = 0 ∧ positSqrtGeneric 5 0 0 = 0 ∧
    positSqrtGeneric 8 0 0 = 0 ∧ positSqrtGeneric 8 1 0 = 0 ∧ positSqrtGeneric 16 1 0 = 0 ∧ positSqrtGeneric 32 2 0 = 0 ∧
    positSqrtFast 8 2 0 = 0 ∧ sqrt_16_1 0 = 0 ∧ sqrt_32_2 0 = 0 ∧ sqrt_16_1 0x8000 = 0x8000 ∧ sqrt_32_2 0x80000000 = 0x80000000 ∧
    sqrt_16_1 0xC000 = 0x8000 ∧ sqrt_32_2 0xC0000000 = 0x80000000 := by decide +kernel

/-! ### finite lemmas (whole configurations by kernel evaluation) — regression anchors, NOT the property -/

/-- double detour, posit<8,2>: RN53(√x) followed by the posit conversion is the correctly rounded root for all 128 arguments -/
theorem C17_cfg_8_2_generic_nearest : ∀ a < 128, (positSqrtOk 8 2 a (positSqrtGeneric 8 2 a)).1 = true := by decide +kernel
theorem C17_cfg_6_1_generic_nearest : ∀ a < 32, (positSqrtOk 6 1 a (positSqrtGeneric 6 1 a)).1 = true := by decide +kernel
/-- fast posit<8,2> sqrt (generic template over the fast class: float_assign truncates): not correctly rounded, e.g. at 5 -/
theorem C17_cfg_8_2_fast_counterexample : (positSqrtOk 8 2 5 (positSqrtFast 8 2 5)).1 = false := by decide +kernel

/-! ### statements that are NOT proved here (kept visible) -/

/-- **The generic posit sqrt `posit(std::sqrt(double(a)))` satisfies C17, for every configuration** whose scale range fits
    binary64 ((nbits-2)·2^es ≤ 2040) and whose (nbits+1)-bit cuts fit 53 bits (fbits ≤ 51), and every non-negative argument:
    the result is the correctly rounded root (Posit-Standard midpoint, decided by squaring) when nbits ≤ 16, and one of the two
    posits bracketing the root (the exact root when it is representable) above.
    Proof (Lemmas/SqrtRN, SqrtFP, SqrtPosit): `sqrtBits 11 52` yields D = R·2^(e-52) with R the RNE integer of √(x·4^(52-e))
    (`sqrtBits_spec`, on squares); D is monotone and exact against every 53-bit float (`SqrtDouble.mono`), which gives
    faithfulness after the Standard rounding of D (`convert_correct` of C01 via `convertDyadic_spec`); for fbits ≤ 23 a cut
    with ≤ 25 significant bits can only coincide with D if x is exactly its square (`rnSq_gap`: both x·4^(52-e) and the cut's
    square are multiples of 2^56 while |x·4^(52-e) − R²| ≤ R + ¼ < 2^54), so D and √x compare alike with every
    (nbits+1)-bit posit value and round alike — no double rounding. -/
theorem C17_double_detour_faithful (n es a : Nat) (hn : 2 ≤ n) (hrange : (n - 2) * 2 ^ es ≤ 2040)
    (hfb : fbitsOf n es ≤ 51) (ha : a < 2 ^ (n - 1)) (ht : rootsTable n es = none) :
    (positSqrtOk n es a (positSqrtGeneric n es a)).1 = true :=
  positSqrt_generic_ok n es a hn hrange hfb ha ht
example : (positSqrtOk 32 2 0x5a000000 (positSqrtGeneric 32 2 0x5a000000)).1 = true :=
  C17_double_detour_faithful 32 2 _ (by decide) (by decide) (by decide) (by decide) rfl

/-- the statement that used to be open (n ≤ 32, es ≤ 3): an instance of the theorem above -/
def C17_double_detour_faithful_full : Prop :=
  ∀ n es a, 2 ≤ n → n ≤ 32 → es ≤ 3 → a < 2 ^ (n - 1) → rootsTable n es = none →
    (positSqrtOk n es a (positSqrtGeneric n es a)).1 = true

theorem C17_double_detour_faithful_full_holds : C17_double_detour_faithful_full := by
  intro n es a hn h32 hes ha ht
  apply C17_double_detour_faithful n es a hn _ _ ha ht
  · have h1 : 2 ^ es ≤ 2 ^ 3 := Nat.pow_le_pow_right (by norm_num) hes
    have h2 : (n - 2) * 2 ^ es ≤ 30 * 2 ^ 3 := Nat.mul_le_mul (by omega) h1
    omega
  · have := fbitsOf_le n es
    omega

/-- **Monotonicity of the generic posit sqrt** on non-negative arguments a ≤ b, for every configuration whose scale range
    fits binary64: RN53∘√ is monotone (`sqrtDouble_mono`: lower/upper midpoint bounds of neighbouring binades, ties decided by
    parity) and the Standard's rounding is monotone (`nearestMag_mono`, via the unbounded encoding of C01). -/
theorem C17_monotone_generic (n es a b : Nat) (hn : 2 ≤ n) (hrange : (n - 2) * 2 ^ es ≤ 2040)
    (hab : a ≤ b) (hb : b < 2 ^ (n - 1)) (ht : rootsTable n es = none) :
    positMonoOk n es a b (positSqrtGeneric n es a) (positSqrtGeneric n es b) = true :=
  positSqrt_generic_mono n es a b hn hrange hab hb ht

/-- the table-driven configurations are monotone on neighbouring non-negative arguments (regenerated tables) -/
theorem C17_monotone_tables :
    (∀ a < 3, positMonoOk 3 0 a (a + 1) (positSqrtGeneric 3 0 a) (positSqrtGeneric 3 0 (a + 1)) = true) ∧
    (∀ a < 3, positMonoOk 3 1 a (a + 1) (positSqrtGeneric 3 1 a) (positSqrtGeneric 3 1 (a + 1)) = true) ∧
    (∀ a < 7, positMonoOk 4 0 a (a + 1) (positSqrtGeneric 4 0 a) (positSqrtGeneric 4 0 (a + 1)) = true) ∧
    (∀ a < 15, positMonoOk 5 0 a (a + 1) (positSqrtGeneric 5 0 a) (positSqrtGeneric 5 0 (a + 1)) = true) ∧
    (∀ a < 127, positMonoOk 8 0 a (a + 1) (positSqrtGeneric 8 0 a) (positSqrtGeneric 8 0 (a + 1)) = true) ∧
    (∀ a < 127, positMonoOk 8 1 a (a + 1) (positSqrtGeneric 8 1 a) (positSqrtGeneric 8 1 (a + 1)) = true) := by
  decide +kernel

theorem rootsTable_cases (n es : Nat) :
    rootsTable n es = none ∨ (n = 3 ∧ es = 0) ∨ (n = 3 ∧ es = 1) ∨ (n = 4 ∧ es = 0) ∨ (n = 5 ∧ es = 0) ∨
    (n = 8 ∧ es = 0) ∨ (n = 8 ∧ es = 1) := by
  unfold rootsTable
  split <;> simp

/-- monotonicity on neighbouring arguments for every configuration with n ≤ 32, es ≤ 3 (tables and double detour) -/
def C17_monotone_full : Prop :=
  ∀ n es a, 2 ≤ n → n ≤ 32 → es ≤ 3 → a + 1 < 2 ^ (n - 1) →
    positMonoOk n es a (a + 1) (positSqrtGeneric n es a) (positSqrtGeneric n es (a + 1)) = true

theorem C17_monotone_full_holds : C17_monotone_full := by
  intro n es a hn h32 hes ha
  obtain ⟨t1, t2, t3, t4, t5, t6⟩ := C17_monotone_tables
  rcases rootsTable_cases n es with h | ⟨rfl, rfl⟩ | ⟨rfl, rfl⟩ | ⟨rfl, rfl⟩ | ⟨rfl, rfl⟩ | ⟨rfl, rfl⟩ | ⟨rfl, rfl⟩
  · apply C17_monotone_generic n es a (a + 1) hn _ (by omega) ha h
    have h1 : 2 ^ es ≤ 2 ^ 3 := Nat.pow_le_pow_right (by norm_num) hes
    have h2 : (n - 2) * 2 ^ es ≤ 30 * 2 ^ 3 := Nat.mul_le_mul (by omega) h1
    omega
  · exact t1 a (by norm_num at ha; omega)
  · exact t2 a (by norm_num at ha; omega)
  · exact t3 a (by norm_num at ha; omega)
  · exact t4 a (by norm_num at ha; omega)
  · exact t5 a (by norm_num at ha; omega)
  · exact t6 a (by norm_num at ha; omega)

/-- the native fixpnt iteration returns 0 for the smallest positive argument in EVERY configuration (nbits ≥ 2, any rbits):
    x₀ = a >> 1 = 0 and |x₀² − a| = 1 ulp is not > epsilon, so the loop is never entered -/
theorem C17_fixpnt_native_sqrt_of_one_ulp_is_zero (n rb : Nat) (hn : 2 ≤ n) : fixSqrt n rb 1 = 0 := fixSqrt_one n rb hn
/-- … which the property rejects (the exact root 2^(-rb/2) is positive): instances -/
theorem C17_fixpnt_native_zero_is_rejected :
    (fixSqrtOk 8 4 1 0).1 = false ∧ (fixSqrtOk 16 8 1 0).1 = false ∧ (fixSqrtOk 24 10 1 0).1 = false ∧ (fixSqrtOk 32 16 1 0).1 = false := by
  decide +kernel

/-- the fixpnt native iteration does NOT satisfy C17 (recorded finding): sqrt(1 ulp) = 0 for fixpnt<8,4> -/
theorem C17_fixpnt_native_counterexample : fixSqrt 8 4 1 = 0 ∧ (fixSqrtOk 8 4 1 (fixSqrt 8 4 1)).1 = false := by decide +kernel
/-- … and it wraps into the negative range for large arguments: fixpnt<8,4> sqrt(7.9375) = -7.9375… (raw 0x7f ↦ 0xb0 region) -/
theorem C17_fixpnt_native_overflow_counterexample : toSigned 8 (fixSqrt 8 4 0x7f) < 0 := by decide +kernel
