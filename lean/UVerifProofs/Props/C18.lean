/-
  Property C18 — areal conversion encloses the source value (uncertainty-bit semantics).

  Model: `UVerif.Areal.Model.assignF32 / assignF64` (line-by-line transcription of areal_impl.hpp:239-552, parametrised by
  nbits, es and the block width).  Spec: `UVerif.Areal.encloses` on the exact rational value of the source.

  Proved here, for EVERY configuration (es ≥ 1, nbits ≥ es + 3, any block width for which the limb store covers nbits) with
  fbits ≤ 21 (float) / fbits ≤ 50 (double) — the `shiftRight > 0` requirement of the code:
    C18_encloses_partial_f32 / _f64   finite NORMAL sources with MIN_EXP_SUBNORMAL ≤ exponent ≤ MAX_EXP-1, except the corner
                                      "exponent = MAX_EXP-1 and the leading fbits fraction bits all ones", are enclosed
                                      (normal-target branch and subnormal-target branch with its three sticky masks)
    C18_above_range_f32 / _f64        exponent > MAX_EXP      ↦ (maxpos, ∞) resp. (-∞, maxneg)
    C18_below_range_f32 / _f64        exponent < MIN_EXP_SUBNORMAL (normal sources) ↦ (0, minpos) resp. (-minpos, -0)
    C18_specials_f32 / _f64           ±inf ↦ ±inf, the two recognised NaN patterns ↦ NaN, ±0 ↦ ±0
  False of the pinned code (D13), proved as negations at concrete witnesses:
    C18_exp_eq_MAX_EXP_counterexample, C18_top_binade_allones_counterexample, C18_nan_payload_counterexample,
    C18_subnormal_source_counterexample, C18_target_not_narrower_counterexample
  The full statement is `C18_encloses_full` (a `def … : Prop`); the five counterexamples refute it.
  Everything at once: `C18_encloses_outside_D13_f32 / _f64` — EVERY float / double (finite, ±0, ±inf, NaN, subnormal, out of
  range) outside the decidable region `d13RegionF32 / d13RegionF64` is enclosed by its conversion.
-/
import UVerif.Spec.Areal
import UVerif.Model.Areal
import UVerifProofs.Lemmas.ArealVal
import UVerifProofs.Lemmas.ArealBits
import UVerifProofs.Lemmas.ArealAssign

set_option linter.unusedSimpArgs false
set_option linter.unusedVariables false
set_option linter.unnecessarySeqFocus false

open UVerif UVerif.Areal UVerif.ArealLemmas

/-- C18 for float sources: every finite NORMAL float whose unbiased exponent e satisfies
    MIN_EXP_SUBNORMAL ≤ e ≤ MAX_EXP-1, except the all-ones corner of the top binade, is enclosed — for every
    areal<nbits,es,bt> with fbits ≤ 21 (the code's `shiftRight > 0` requirement) and nbits ≤ 32. -/
theorem C18_encloses_partial_f32 (c : Model.Cfg) (bc : Nat)
    (hes : 1 ≤ c.es) (hn : c.es + 3 ≤ c.nbits) (hw : 1 ≤ c.w) (hW : c.nbits ≤ 32)
    (hst : c.nrBlocks = 1 ∨ c.nrBlocks ≤ 33 / c.w) (hsr : c.fbits + 1 < 23)
    (h1 : 1 ≤ (bc >>> 23) % 256) (h2 : (bc >>> 23) % 256 ≤ 254)
    (hlo : c.MIN_EXP_SUBNORMAL ≤ (((bc >>> 23) % 256 : Nat) : Int) - 127)
    (hhi : (((bc >>> 23) % 256 : Nat) : Int) - 127 < c.MAX_EXP)
    (htop : ¬ ((((bc >>> 23) % 256 : Nat) : Int) - 127 = c.MAX_EXP - 1 ∧
        (bc % 2 ^ 23) / 2 ^ (23 - c.fbits) = 2 ^ c.fbits - 1)) :
    encloses (specCfg c)
      (.fin (bc.testBit 31) (dyadic ((bc % 2 ^ 23 + 2 ^ 23 : Nat) : Int) ((((bc >>> 23) % 256 : Nat) : Int) - 127 - 23)))
      (Model.assignF32 c bc) = true := by
  rw [assignF32_normal c bc h1 h2]
  exact assignCore_encloses c 23 127 32 true _ _ _ hes hn hw hW (by omega) hst hsr
    (Nat.mod_lt _ (Nat.two_pow_pos _)) h1 hlo hhi htop

/-- C18 for double sources (fbits ≤ 50, nbits ≤ 64) -/
theorem C18_encloses_partial_f64 (c : Model.Cfg) (bc : Nat)
    (hes : 1 ≤ c.es) (hn : c.es + 3 ≤ c.nbits) (hw : 1 ≤ c.w) (hW : c.nbits ≤ 64)
    (hst : c.nrBlocks = 1 ∨ c.nrBlocks ≤ 65 / c.w) (hsr : c.fbits + 1 < 52)
    (h1 : 1 ≤ (bc >>> 52) % 2048) (h2 : (bc >>> 52) % 2048 ≤ 2046)
    (hlo : c.MIN_EXP_SUBNORMAL ≤ (((bc >>> 52) % 2048 : Nat) : Int) - 1023)
    (hhi : (((bc >>> 52) % 2048 : Nat) : Int) - 1023 < c.MAX_EXP)
    (htop : ¬ ((((bc >>> 52) % 2048 : Nat) : Int) - 1023 = c.MAX_EXP - 1 ∧
        (bc % 2 ^ 52) / 2 ^ (52 - c.fbits) = 2 ^ c.fbits - 1)) :
    encloses (specCfg c)
      (.fin (bc.testBit 63) (dyadic ((bc % 2 ^ 52 + 2 ^ 52 : Nat) : Int) ((((bc >>> 52) % 2048 : Nat) : Int) - 1023 - 52)))
      (Model.assignF64 c bc) = true := by
  rw [assignF64_normal c bc h1 h2]
  exact assignCore_encloses c 52 1023 64 false _ _ _ hes hn hw hW (by omega) hst hsr
    (Nat.mod_lt _ (Nat.two_pow_pos _)) h1 hlo hhi htop

-- D13 witnesses (negations at concrete inputs)
theorem C18_exp_eq_MAX_EXP_counterexample :
    ¬ encloses ⟨6, 2⟩ (.fin false 8) (Model.assignF32 ⟨6, 2, 8⟩ 0x41000000) = true := by decide

/-- C18, special sources (float): ±inf ↦ ±inf, the two recognised NaN patterns ↦ NaN, ±0 ↦ ±0 -/
theorem C18_specials_f32 (c : Model.Cfg) (hes : 1 ≤ c.es) (hn : c.es + 3 ≤ c.nbits) (bc : Nat) :
    ((bc >>> 23) % 256 = 255 → bc % 2 ^ 23 = 0 →
      encloses (specCfg c) (.inf (bc.testBit 31)) (Model.assignF32 c bc) = true) ∧
    ((bc >>> 23) % 256 = 255 → (bc % 2 ^ 23 = 1 ∨ bc % 2 ^ 23 = 0x400000) →
      encloses (specCfg c) .nan (Model.assignF32 c bc) = true) ∧
    ((bc >>> 23) % 256 = 0 → bc % 2 ^ 23 = 0 →
      encloses (specCfg c) (.fin (bc.testBit 31) 0) (Model.assignF32 c bc) = true) := by
  obtain ⟨i1, i2, i3⟩ := encloses_inf_nan c (by omega) (bc.testBit 31)
  refine ⟨?_, ?_, ?_⟩
  · intro h1 h2
    have : Model.assignF32 c bc = Model.setinf c (bc.testBit 31) := by
      unfold Model.assignF32; norm_num at h2; simp [h1, h2]
    rw [this]; exact i1
  · intro h1 h2
    rcases h2 with h2 | h2
    · have : Model.assignF32 c bc = Model.setnanSignalling c := by
        unfold Model.assignF32; norm_num at h2; simp [h1, h2]
      rw [this]; exact i2
    · have : Model.assignF32 c bc = Model.setnanQuiet c := by
        unfold Model.assignF32; norm_num at h2; simp [h1, h2]
      rw [this]; exact i3
  · intro h1 h2
    have : Model.assignF32 c bc = (if bc.testBit 31 then 2 ^ ((specCfg c).nbits - 1) else 0) := by
      unfold Model.assignF32 Model.signBit; norm_num at h2; simp [h1, h2, specCfg_nbits]
    rw [this]; exact encloses_zero (specCfg c) hes hn _

/-- C18, special sources (double) -/
theorem C18_specials_f64 (c : Model.Cfg) (hes : 1 ≤ c.es) (hn : c.es + 3 ≤ c.nbits) (bc : Nat) :
    ((bc >>> 52) % 2048 = 2047 → bc % 2 ^ 52 = 0 →
      encloses (specCfg c) (.inf (bc.testBit 63)) (Model.assignF64 c bc) = true) ∧
    ((bc >>> 52) % 2048 = 2047 → (bc % 2 ^ 52 = 1 ∨ bc % 2 ^ 52 = 0x8000000000000) →
      encloses (specCfg c) .nan (Model.assignF64 c bc) = true) ∧
    ((bc >>> 52) % 2048 = 0 → bc % 2 ^ 52 = 0 →
      encloses (specCfg c) (.fin (bc.testBit 63) 0) (Model.assignF64 c bc) = true) := by
  obtain ⟨i1, i2, i3⟩ := encloses_inf_nan c (by omega) (bc.testBit 63)
  refine ⟨?_, ?_, ?_⟩
  · intro h1 h2
    have : Model.assignF64 c bc = Model.setinf c (bc.testBit 63) := by
      unfold Model.assignF64; norm_num at h2; simp [h1, h2]
    rw [this]; exact i1
  · intro h1 h2
    rcases h2 with h2 | h2
    · have : Model.assignF64 c bc = Model.setnanSignalling c := by
        unfold Model.assignF64; norm_num at h2; simp [h1, h2]
      rw [this]; exact i2
    · have : Model.assignF64 c bc = Model.setnanQuiet c := by
        unfold Model.assignF64; norm_num at h2; simp [h1, h2]
      rw [this]; exact i3
  · intro h1 h2
    have : Model.assignF64 c bc = (if bc.testBit 63 then 2 ^ ((specCfg c).nbits - 1) else 0) := by
      unfold Model.assignF64 Model.signBit; norm_num at h2; simp [h1, h2, specCfg_nbits]
    rw [this]; exact encloses_zero (specCfg c) hes hn _

/-- C18, sources above the range (float): unbiased exponent > MAX_EXP ↦ the open interval beyond maxpos / maxneg -/
theorem C18_above_range_f32 (c : Model.Cfg) (bc : Nat) (hes : 1 ≤ c.es) (hn : c.es + 3 ≤ c.nbits)
    (h1 : 1 ≤ (bc >>> 23) % 256) (h2 : (bc >>> 23) % 256 ≤ 254)
    (hhi : c.MAX_EXP < (((bc >>> 23) % 256 : Nat) : Int) - 127) :
    encloses (specCfg c)
      (.fin (bc.testBit 31) (dyadic ((bc % 2 ^ 23 + 2 ^ 23 : Nat) : Int) ((((bc >>> 23) % 256 : Nat) : Int) - 127 - 23)))
      (Model.assignF32 c bc) = true := by
  rw [assignF32_normal c bc h1 h2]
  exact assignCore_above c 23 127 32 true _ _ _ hes hn hhi

theorem C18_above_range_f64 (c : Model.Cfg) (bc : Nat) (hes : 1 ≤ c.es) (hn : c.es + 3 ≤ c.nbits)
    (h1 : 1 ≤ (bc >>> 52) % 2048) (h2 : (bc >>> 52) % 2048 ≤ 2046)
    (hhi : c.MAX_EXP < (((bc >>> 52) % 2048 : Nat) : Int) - 1023) :
    encloses (specCfg c)
      (.fin (bc.testBit 63) (dyadic ((bc % 2 ^ 52 + 2 ^ 52 : Nat) : Int) ((((bc >>> 52) % 2048 : Nat) : Int) - 1023 - 52)))
      (Model.assignF64 c bc) = true := by
  rw [assignF64_normal c bc h1 h2]
  exact assignCore_above c 52 1023 64 false _ _ _ hes hn hhi

/-- C18, sources below the range (float, normal source): exponent < MIN_EXP_SUBNORMAL ↦ the open interval next to zero -/
theorem C18_below_range_f32 (c : Model.Cfg) (bc : Nat) (hes : 1 ≤ c.es) (hn : c.es + 3 ≤ c.nbits)
    (h1 : 1 ≤ (bc >>> 23) % 256) (h2 : (bc >>> 23) % 256 ≤ 254)
    (hlo : (((bc >>> 23) % 256 : Nat) : Int) - 127 < c.MIN_EXP_SUBNORMAL) :
    encloses (specCfg c)
      (.fin (bc.testBit 31) (dyadic ((bc % 2 ^ 23 + 2 ^ 23 : Nat) : Int) ((((bc >>> 23) % 256 : Nat) : Int) - 127 - 23)))
      (Model.assignF32 c bc) = true := by
  rw [assignF32_normal c bc h1 h2]
  have k := (model_consts c hes)
  have hE2 : 2 ≤ 2 ^ c.es := by
    calc 2 = 2 ^ 1 := rfl
      _ ≤ 2 ^ c.es := Nat.pow_le_pow_right (by omega) hes
  exact assignCore_below c 23 127 32 true _ _ _ hes hn (Nat.mod_lt _ (Nat.two_pow_pos _))
    (by obtain ⟨k1, k2, k3⟩ := k; omega) hlo

theorem C18_below_range_f64 (c : Model.Cfg) (bc : Nat) (hes : 1 ≤ c.es) (hn : c.es + 3 ≤ c.nbits)
    (h1 : 1 ≤ (bc >>> 52) % 2048) (h2 : (bc >>> 52) % 2048 ≤ 2046)
    (hlo : (((bc >>> 52) % 2048 : Nat) : Int) - 1023 < c.MIN_EXP_SUBNORMAL) :
    encloses (specCfg c)
      (.fin (bc.testBit 63) (dyadic ((bc % 2 ^ 52 + 2 ^ 52 : Nat) : Int) ((((bc >>> 52) % 2048 : Nat) : Int) - 1023 - 52)))
      (Model.assignF64 c bc) = true := by
  rw [assignF64_normal c bc h1 h2]
  have k := (model_consts c hes)
  have hE2 : 2 ≤ 2 ^ c.es := by
    calc 2 = 2 ^ 1 := rfl
      _ ≤ 2 ^ c.es := Nat.pow_le_pow_right (by omega) hes
  exact assignCore_below c 52 1023 64 false _ _ _ hes hn (Nat.mod_lt _ (Nat.two_pow_pos _))
    (by obtain ⟨k1, k2, k3⟩ := k; omega) hlo

/-! ### the full statement and its refutation (D13) -/

/-- value of a finite float pattern as the spec source -/
def srcOfF32 (bc : Nat) : Src :=
  let e := (bc >>> 23) % 256
  let f := bc % 2 ^ 23
  if e = 255 then (if f = 0 then .inf (bc.testBit 31) else .nan)
  else .fin (bc.testBit 31) (dyadic ((if e = 0 then f else f + 2 ^ 23 : Nat) : Int) (((max e 1 : Nat) : Int) - 127 - 23))

/-- the property as stated: EVERY float is enclosed by its areal conversion (false of the pinned code) -/
def C18_encloses_full : Prop :=
  ∀ (c : Model.Cfg) (bc : Nat), 1 ≤ c.es → c.es + 3 ≤ c.nbits → c.nbits ≤ 32 → c.w ∈ [8, 16, 32] → bc < 2 ^ 32 →
    encloses (specCfg c) (srcOfF32 bc) (Model.assignF32 c bc) = true

-- float 7.0 = 1.11b·2^2 into areal<6,2>: exponent 2 = MAX_EXP-1 and both fraction bits set → the +inf pattern 0b011110
theorem C18_top_binade_allones_counterexample :
    ¬ encloses ⟨6, 2⟩ (.fin false 7) (Model.assignF32 ⟨6, 2, 8⟩ 0x40e00000) = true := by decide

-- NaN with payload 0x200000 (numeric_limits<float>::signaling_NaN) is converted as a number: (maxpos, ∞)
theorem C18_nan_payload_counterexample :
    ¬ encloses ⟨6, 2⟩ .nan (Model.assignF32 ⟨6, 2, 8⟩ 0x7fa00000) = true := by decide

-- the subnormal float 2^-127 into areal<12,8>: the result is the encoding of 2^-128
theorem C18_subnormal_source_counterexample :
    ¬ encloses ⟨12, 8⟩ (srcOfF32 0x00400000) (Model.assignF32 ⟨12, 8, 8⟩ 0x00400000) = true := by decide +kernel

-- target fraction as wide as the source (areal<32,8>, fbits = 22): the dropped bit is not reflected in the ubit
theorem C18_target_not_narrower_counterexample :
    ¬ encloses ⟨32, 8⟩ (srcOfF32 0x4b000001) (Model.assignF32 ⟨32, 8, 8⟩ 0x4b000001) = true := by decide +kernel

theorem C18_encloses_full_is_false : ¬ C18_encloses_full := by
  intro h
  have := h ⟨6, 2, 8⟩ 0x41000000 (by decide) (by decide) (by decide) (by decide) (by decide)
  revert this
  decide

/-! ### everything at once: the decidable D13 region and the enclosure outside it -/

/-- the decidable region of float sources on which areal<…>::operator=(float) is known to be wrong (D13) -/
def d13RegionF32 (c : Model.Cfg) (bc : Nat) : Bool :=
  let e := (bc >>> 23) % 256
  let f := bc % 2 ^ 23
  let exponent : Int := (e : Int) - 127
  (e == 255 && f != 0 && f != 1 && f != 0x400000) ||                                  -- unrecognised NaN payload
  (e != 255 && exponent == c.MAX_EXP) ||                                              -- exponent == MAX_EXP
  (e != 255 && exponent == c.MAX_EXP - 1 && f / 2 ^ (23 - c.fbits) == 2 ^ c.fbits - 1) ||   -- all-ones corner
  (e == 0 && f != 0 && decide (c.MIN_EXP_SUBNORMAL ≤ exponent))                       -- subnormal source not flushed

/-- C18 for float sources, everything at once: EVERY float outside the decidable D13 region is enclosed by its conversion,
    for every areal<nbits,es,bt> with fbits ≤ 21, nbits ≤ 32 (specials included: ±0, ±inf, the recognised NaNs). -/
theorem C18_encloses_outside_D13_f32 (c : Model.Cfg) (bc : Nat)
    (hes : 1 ≤ c.es) (hn : c.es + 3 ≤ c.nbits) (hw : 1 ≤ c.w) (hW : c.nbits ≤ 32)
    (hst : c.nrBlocks = 1 ∨ c.nrBlocks ≤ 33 / c.w) (hsr : c.fbits + 1 < 23)
    (hreg : d13RegionF32 c bc = false) :
    encloses (specCfg c) (srcOfF32 bc) (Model.assignF32 c bc) = true := by
  unfold d13RegionF32 at hreg
  simp only [Bool.or_eq_false_iff, Bool.and_eq_false_iff] at hreg
  obtain ⟨⟨⟨r1, r2⟩, r3⟩, r4⟩ := hreg
  obtain ⟨s1, s2, s3⟩ := C18_specials_f32 c hes hn bc
  unfold srcOfF32
  have helt : (bc >>> 23) % 256 < 256 := Nat.mod_lt _ (by norm_num)
  generalize he : (bc >>> 23) % 256 = e at *
  generalize hf : bc % 2 ^ 23 = f at *
  by_cases h255 : e = 255
  · -- inf / NaN
    simp only [h255, if_true]
    by_cases hf0 : f = 0
    · simp only [hf0, if_true]; exact s1 h255 hf0
    · simp only [hf0, if_false]
      have : f = 1 ∨ f = 0x400000 := by
        simp [h255, hf0] at r1
        exact r1
      exact s2 h255 this
  simp only [h255, if_false]
  by_cases h0 : e = 0
  · by_cases hf0 : f = 0
    · -- ±0
      have := s3 h0 hf0
      simpa [h0, hf0, dyadic_def] using this
    · -- subnormal source: must be flushed
      have hlo : ((0 : Nat) : Int) - 127 < c.MIN_EXP_SUBNORMAL := by
        simp [h0, hf0] at r4
        omega
      have hcore : Model.assignF32 c bc = Model.assignCore c 23 127 32 true (bc.testBit 31) 0 f := by
        unfold Model.assignF32
        have hf' : bc % 8388608 = f := by rw [← hf]; norm_num
        simp [he, hf', h0, hf0]
      rw [hcore]
      have k := model_consts c hes
      have hE2 : 2 ≤ 2 ^ c.es := by
        calc 2 = 2 ^ 1 := rfl
          _ ≤ 2 ^ c.es := Nat.pow_le_pow_right (by omega) hes
      have := assignCore_below_subnormal_src c 23 127 32 true (bc.testBit 31) f hes hn
        (by rw [← hf]; exact Nat.mod_lt _ (Nat.two_pow_pos _)) (Nat.pos_of_ne_zero hf0)
        (by obtain ⟨k1, k2, k3⟩ := k; omega) hlo
      simpa [h0, dyadic_def] using this
  · -- normal source
    have h1 : 1 ≤ e := Nat.one_le_iff_ne_zero.mpr h0
    have h2 : e ≤ 254 := by omega
    have hmax1 : max e 1 = e := by omega
    simp only [h0, if_false, hmax1]
    have hsrc : (((e : Nat) : Int) - 127 - 23) = (((e : Nat) : Int) - 127 - 23) := rfl
    by_cases habove : c.MAX_EXP < ((e : Nat) : Int) - 127
    · have := C18_above_range_f32 c bc hes hn (by rw [he]; exact h1) (by rw [he]; exact h2) (by rw [he]; exact habove)
      rw [he, hf] at this; exact this
    by_cases hbelow : ((e : Nat) : Int) - 127 < c.MIN_EXP_SUBNORMAL
    · have := C18_below_range_f32 c bc hes hn (by rw [he]; exact h1) (by rw [he]; exact h2) (by rw [he]; exact hbelow)
      rw [he, hf] at this; exact this
    · have hne : ((e : Nat) : Int) - 127 ≠ c.MAX_EXP := by
        simp [h255] at r2
        exact r2
      have htop : ¬ (((e : Nat) : Int) - 127 = c.MAX_EXP - 1 ∧ f / 2 ^ (23 - c.fbits) = 2 ^ c.fbits - 1) := by
        rintro ⟨t1, t2⟩
        simp [h255, t1, t2] at r3
      have := C18_encloses_partial_f32 c bc hes hn hw hW hst hsr (by rw [he]; exact h1) (by rw [he]; exact h2)
        (by rw [he]; omega) (by rw [he]; omega) (by rw [he, hf]; exact htop)
      rw [he, hf] at this; exact this

/-- value of a finite double pattern as the spec source -/
def srcOfF64 (bc : Nat) : Src :=
  let e := (bc >>> 52) % 2048
  let f := bc % 2 ^ 52
  if e = 2047 then (if f = 0 then .inf (bc.testBit 63) else .nan)
  else .fin (bc.testBit 63) (dyadic ((if e = 0 then f else f + 2 ^ 52 : Nat) : Int) (((max e 1 : Nat) : Int) - 1023 - 52))

/-- the decidable region of double sources on which areal<…>::operator=(double) is known to be wrong (D13) -/
def d13RegionF64 (c : Model.Cfg) (bc : Nat) : Bool :=
  let e := (bc >>> 52) % 2048
  let f := bc % 2 ^ 52
  let exponent : Int := (e : Int) - 1023
  (e == 2047 && f != 0 && f != 1 && f != 0x8000000000000) ||                                  -- unrecognised NaN payload
  (e != 2047 && exponent == c.MAX_EXP) ||                                              -- exponent == MAX_EXP
  (e != 2047 && exponent == c.MAX_EXP - 1 && f / 2 ^ (52 - c.fbits) == 2 ^ c.fbits - 1) ||   -- all-ones corner
  (e == 0 && f != 0 && decide (c.MIN_EXP_SUBNORMAL ≤ exponent))                       -- subnormal source not flushed

/-- C18 for double sources, everything at once: EVERY double outside the decidable D13 region is enclosed by its conversion,
    for every areal<nbits,es,bt> with fbits ≤ 50, nbits ≤ 64 (specials included: ±0, ±inf, the recognised NaNs). -/
theorem C18_encloses_outside_D13_f64 (c : Model.Cfg) (bc : Nat)
    (hes : 1 ≤ c.es) (hn : c.es + 3 ≤ c.nbits) (hw : 1 ≤ c.w) (hW : c.nbits ≤ 64)
    (hst : c.nrBlocks = 1 ∨ c.nrBlocks ≤ 65 / c.w) (hsr : c.fbits + 1 < 52)
    (hreg : d13RegionF64 c bc = false) :
    encloses (specCfg c) (srcOfF64 bc) (Model.assignF64 c bc) = true := by
  unfold d13RegionF64 at hreg
  simp only [Bool.or_eq_false_iff, Bool.and_eq_false_iff] at hreg
  obtain ⟨⟨⟨r1, r2⟩, r3⟩, r4⟩ := hreg
  obtain ⟨s1, s2, s3⟩ := C18_specials_f64 c hes hn bc
  unfold srcOfF64
  have helt : (bc >>> 52) % 2048 < 2048 := Nat.mod_lt _ (by norm_num)
  generalize he : (bc >>> 52) % 2048 = e at *
  generalize hf : bc % 2 ^ 52 = f at *
  by_cases h2047 : e = 2047
  · -- inf / NaN
    simp only [h2047, if_true]
    by_cases hf0 : f = 0
    · simp only [hf0, if_true]; exact s1 h2047 hf0
    · simp only [hf0, if_false]
      have : f = 1 ∨ f = 0x8000000000000 := by
        simp [h2047, hf0] at r1
        exact r1
      exact s2 h2047 this
  simp only [h2047, if_false]
  by_cases h0 : e = 0
  · by_cases hf0 : f = 0
    · -- ±0
      have := s3 h0 hf0
      simpa [h0, hf0, dyadic_def] using this
    · -- subnormal source: must be flushed
      have hlo : ((0 : Nat) : Int) - 1023 < c.MIN_EXP_SUBNORMAL := by
        simp [h0, hf0] at r4
        omega
      have hcore : Model.assignF64 c bc = Model.assignCore c 52 1023 64 false (bc.testBit 63) 0 f := by
        unfold Model.assignF64
        have hf' : bc % 4503599627370496 = f := by rw [← hf]; norm_num
        simp [he, hf', h0, hf0]
      rw [hcore]
      have k := model_consts c hes
      have hE2 : 2 ≤ 2 ^ c.es := by
        calc 2 = 2 ^ 1 := rfl
          _ ≤ 2 ^ c.es := Nat.pow_le_pow_right (by omega) hes
      have := assignCore_below_subnormal_src c 52 1023 64 false (bc.testBit 63) f hes hn
        (by rw [← hf]; exact Nat.mod_lt _ (Nat.two_pow_pos _)) (Nat.pos_of_ne_zero hf0)
        (by obtain ⟨k1, k2, k3⟩ := k; omega) hlo
      simpa [h0, dyadic_def] using this
  · -- normal source
    have h1 : 1 ≤ e := Nat.one_le_iff_ne_zero.mpr h0
    have h2 : e ≤ 2046 := by omega
    have hmax1 : max e 1 = e := by omega
    simp only [h0, if_false, hmax1]
    have hsrc : (((e : Nat) : Int) - 1023 - 52) = (((e : Nat) : Int) - 1023 - 52) := rfl
    by_cases habove : c.MAX_EXP < ((e : Nat) : Int) - 1023
    · have := C18_above_range_f64 c bc hes hn (by rw [he]; exact h1) (by rw [he]; exact h2) (by rw [he]; exact habove)
      rw [he, hf] at this; exact this
    by_cases hbelow : ((e : Nat) : Int) - 1023 < c.MIN_EXP_SUBNORMAL
    · have := C18_below_range_f64 c bc hes hn (by rw [he]; exact h1) (by rw [he]; exact h2) (by rw [he]; exact hbelow)
      rw [he, hf] at this; exact this
    · have hne : ((e : Nat) : Int) - 1023 ≠ c.MAX_EXP := by
        simp [h2047] at r2
        exact r2
      have htop : ¬ (((e : Nat) : Int) - 1023 = c.MAX_EXP - 1 ∧ f / 2 ^ (52 - c.fbits) = 2 ^ c.fbits - 1) := by
        rintro ⟨t1, t2⟩
        simp [h2047, t1, t2] at r3
      have := C18_encloses_partial_f64 c bc hes hn hw hW hst hsr (by rw [he]; exact h1) (by rw [he]; exact h2)
        (by rw [he]; omega) (by rw [he]; omega) (by rw [he, hf]; exact htop)
      rw [he, hf] at this; exact this

/-! ### non-vacuity -/

-- areal<8,3,uint8_t>: float 1.3125 (0x3fa80000) has one set bit below the 4-bit target fraction: ubit set, and the
-- hypotheses of C18_encloses_partial_f32 hold
example : Model.assignF32 ⟨8, 3, 8⟩ 0x3fa80000 = 0x35 ∧
    (1 ≤ (0x3fa80000 >>> 23) % 256 ∧ (0x3fa80000 >>> 23) % 256 ≤ 254 ∧
     (⟨8, 3, 8⟩ : Model.Cfg).MIN_EXP_SUBNORMAL ≤ (((0x3fa80000 >>> 23) % 256 : Nat) : Int) - 127 ∧
     (((0x3fa80000 >>> 23) % 256 : Nat) : Int) - 127 < (⟨8, 3, 8⟩ : Model.Cfg).MAX_EXP) := by decide
-- subnormal target: areal<8,3>: 2^-4·1.5 lies in the subnormal range (MIN_EXP_NORMAL = -2)
example : Model.assignF32 ⟨8, 3, 8⟩ 0x3dc00000 = 0x06 := by decide
-- two blocks: areal<12,4,uint8_t>
example : Model.assignF64 ⟨12, 4, 8⟩ 0x3ff8000000000001 = 0x3c1 := by decide
-- the unified theorems are not vacuous: ordinary inputs are outside the D13 region …
example : d13RegionF32 ⟨8, 3, 8⟩ 0x3fa80000 = false ∧ d13RegionF64 ⟨12, 4, 8⟩ 0x3ff8000000000001 = false := by decide
-- … and the witnesses of the counterexamples are inside it
example : d13RegionF32 ⟨6, 2, 8⟩ 0x41000000 = true ∧ d13RegionF32 ⟨6, 2, 8⟩ 0x40e00000 = true ∧
    d13RegionF32 ⟨6, 2, 8⟩ 0x7fa00000 = true ∧ d13RegionF32 ⟨12, 8, 8⟩ 0x00400000 = true := by decide
