/-
  Property C18 — areal conversion encloses the source value (uncertainty-bit semantics).

  Model: `UVerif.Areal.Model.assignF32 / assignF64` (line-by-line transcription of areal_impl.hpp operator=(float) /
  operator=(double) after the repairs of D13, parametrised by nbits, es and the block width).
  Spec: `UVerif.Areal.encloses` on the exact rational value of the source.

  Proved here, for EVERY configuration (es ≥ 1, nbits ≥ es + 3, nbits ≤ 32 for float / ≤ 64 for double — the width of the
  word the code assembles the encoding in —, any block width for which the limb store covers nbits) and EVERY relation between the
  source's and the target's fraction width (target narrower: right shift + sticky mask; as wide or wider: left shift):
    C18_encloses_full / C18_encloses_full_f64   EVERY float / double bit pattern (finite normal, subnormal, ±0, ±inf, NaN with
                                      any payload, out of range) is enclosed by its conversion — the property as stated
    C18_encloses_normal_f32 / _f64    every finite normal source
    C18_subnormal_source_f32 / _f64   every subnormal source (normalised first)
    C18_above_range_f32 / _f64        exponent ≥ MAX_EXP      ↦ (maxpos, ∞) resp. (-∞, maxneg)
    C18_top_binade_allones_f32 / _f64 exponent = MAX_EXP-1 and every bit of the fraction field set ↦ (maxpos, ∞) resp. (-∞, maxneg)
    C18_below_range_f32 / _f64        exponent < MIN_EXP_SUBNORMAL ↦ (0, minpos) resp. (-minpos, -0)
    C18_specials_f32 / _f64           ±inf ↦ ±inf, EVERY NaN payload ↦ NaN, ±0 ↦ ±0
  History: the pinned code was wrong on five input regions (D13: exponent == MAX_EXP, the all-ones corner of the top binade, NaN
  payloads other than two patterns, subnormal sources, targets not narrower than the source); they were repaired in the library
  (five `fix:` commits), the former `…_counterexample` theorems are now positive statements at the same witnesses
  (`C18_*_witness`), `C18_encloses_full` was a refuted `def … : Prop` and is now a theorem.
-/
import UVerif.Spec.Areal
import UVerif.Model.Areal
import UVerifProofs.Lemmas.ArealVal
import UVerifProofs.Lemmas.ArealBits
import UVerifProofs.Lemmas.ArealAssign

set_option linter.unusedSimpArgs false
set_option linter.unusedVariables false
set_option linter.unnecessarySeqFocus false

open UVerif UVerif.Areal UVerif.ArealLemmas

/-- C18 for float sources: EVERY finite normal float is enclosed — for every areal<nbits,es,bt> with nbits ≤ 32. -/
theorem C18_encloses_normal_f32 (c : Model.Cfg) (bc : Nat)
    (hes : 1 ≤ c.es) (hn : c.es + 3 ≤ c.nbits) (hw : 1 ≤ c.w) (hW : c.nbits ≤ 32)
    (hst : c.nrBlocks = 1 ∨ c.nrBlocks ≤ 33 / c.w)
    (h1 : 1 ≤ (bc >>> 23) % 256) (h2 : (bc >>> 23) % 256 ≤ 254) :
    encloses (specCfg c)
      (.fin (bc.testBit 31) (dyadic ((bc % 2 ^ 23 + 2 ^ 23 : Nat) : Int) ((((bc >>> 23) % 256 : Nat) : Int) - 127 - 23)))
      (Model.assignF32 c bc) = true := by
  rw [assignF32_normal c bc h1 h2]
  exact assignCore_encloses_all c 23 32 _ _ _ hes hn hw hW (by omega) hst (Nat.mod_lt _ (Nat.two_pow_pos _))

/-- C18 for double sources: EVERY finite normal double is enclosed (nbits ≤ 64) -/
theorem C18_encloses_normal_f64 (c : Model.Cfg) (bc : Nat)
    (hes : 1 ≤ c.es) (hn : c.es + 3 ≤ c.nbits) (hw : 1 ≤ c.w) (hW : c.nbits ≤ 64)
    (hst : c.nrBlocks = 1 ∨ c.nrBlocks ≤ 65 / c.w)
    (h1 : 1 ≤ (bc >>> 52) % 2048) (h2 : (bc >>> 52) % 2048 ≤ 2046) :
    encloses (specCfg c)
      (.fin (bc.testBit 63) (dyadic ((bc % 2 ^ 52 + 2 ^ 52 : Nat) : Int) ((((bc >>> 52) % 2048 : Nat) : Int) - 1023 - 52)))
      (Model.assignF64 c bc) = true := by
  rw [assignF64_normal c bc h1 h2]
  exact assignCore_encloses_all c 52 64 _ _ _ hes hn hw hW (by omega) hst (Nat.mod_lt _ (Nat.two_pow_pos _))

/-- C18, special sources (float): ±inf ↦ ±inf, EVERY NaN ↦ NaN, ±0 ↦ ±0 -/
theorem C18_specials_f32 (c : Model.Cfg) (hes : 1 ≤ c.es) (hn : c.es + 3 ≤ c.nbits) (bc : Nat) :
    ((bc >>> 23) % 256 = 255 → bc % 2 ^ 23 = 0 →
      encloses (specCfg c) (.inf (bc.testBit 31)) (Model.assignF32 c bc) = true) ∧
    ((bc >>> 23) % 256 = 255 → bc % 2 ^ 23 ≠ 0 →
      encloses (specCfg c) .nan (Model.assignF32 c bc) = true) ∧
    ((bc >>> 23) % 256 = 0 → bc % 2 ^ 23 = 0 →
      encloses (specCfg c) (.fin (bc.testBit 31) 0) (Model.assignF32 c bc) = true) := by
  obtain ⟨i1, i2, i3⟩ := encloses_inf_nan c (by omega) (bc.testBit 31)
  refine ⟨?_, ?_, ?_⟩
  · intro h1 h2
    have : Model.assignF32 c bc = Model.setinf c (bc.testBit 31) := by
      unfold Model.assignF32; norm_num at h2; simp [h1, h2]
    rw [this]; exact i1
  · intro h1 h2
    norm_num at h2
    by_cases hq : bc % 8388608 &&& 0x400000 = 0
    · have : Model.assignF32 c bc = Model.setnanSignalling c := by
        unfold Model.assignF32; simp [h1, h2, hq]
      rw [this]; exact i2
    · have : Model.assignF32 c bc = Model.setnanQuiet c := by
        unfold Model.assignF32; simp [h1, h2, hq]
      rw [this]; exact i3
  · intro h1 h2
    have : Model.assignF32 c bc = (if bc.testBit 31 then 2 ^ ((specCfg c).nbits - 1) else 0) := by
      unfold Model.assignF32 Model.signBit; norm_num at h2; simp [h1, h2, specCfg_nbits]
    rw [this]; exact encloses_zero (specCfg c) hes hn _

/-- C18, special sources (double) -/
theorem C18_specials_f64 (c : Model.Cfg) (hes : 1 ≤ c.es) (hn : c.es + 3 ≤ c.nbits) (bc : Nat) :
    ((bc >>> 52) % 2048 = 2047 → bc % 2 ^ 52 = 0 →
      encloses (specCfg c) (.inf (bc.testBit 63)) (Model.assignF64 c bc) = true) ∧
    ((bc >>> 52) % 2048 = 2047 → bc % 2 ^ 52 ≠ 0 →
      encloses (specCfg c) .nan (Model.assignF64 c bc) = true) ∧
    ((bc >>> 52) % 2048 = 0 → bc % 2 ^ 52 = 0 →
      encloses (specCfg c) (.fin (bc.testBit 63) 0) (Model.assignF64 c bc) = true) := by
  obtain ⟨i1, i2, i3⟩ := encloses_inf_nan c (by omega) (bc.testBit 63)
  refine ⟨?_, ?_, ?_⟩
  · intro h1 h2
    have : Model.assignF64 c bc = Model.setinf c (bc.testBit 63) := by
      unfold Model.assignF64; norm_num at h2; simp [h1, h2]
    rw [this]; exact i1
  · intro h1 h2
    norm_num at h2
    by_cases hq : bc % 4503599627370496 &&& 0x8000000000000 = 0
    · have : Model.assignF64 c bc = Model.setnanSignalling c := by
        unfold Model.assignF64; simp [h1, h2, hq]
      rw [this]; exact i2
    · have : Model.assignF64 c bc = Model.setnanQuiet c := by
        unfold Model.assignF64; simp [h1, h2, hq]
      rw [this]; exact i3
  · intro h1 h2
    have : Model.assignF64 c bc = (if bc.testBit 63 then 2 ^ ((specCfg c).nbits - 1) else 0) := by
      unfold Model.assignF64 Model.signBit; norm_num at h2; simp [h1, h2, specCfg_nbits]
    rw [this]; exact encloses_zero (specCfg c) hes hn _

/-- C18, sources at or above the range (float): unbiased exponent ≥ MAX_EXP ↦ the open interval beyond maxpos / maxneg -/
theorem C18_above_range_f32 (c : Model.Cfg) (bc : Nat) (hes : 1 ≤ c.es) (hn : c.es + 3 ≤ c.nbits)
    (h1 : 1 ≤ (bc >>> 23) % 256) (h2 : (bc >>> 23) % 256 ≤ 254)
    (hhi : c.MAX_EXP ≤ (((bc >>> 23) % 256 : Nat) : Int) - 127) :
    Model.assignF32 c bc = (if bc.testBit 31 then Model.maxneg c else Model.maxpos c) ||| 1 ∧
    encloses (specCfg c)
      (.fin (bc.testBit 31) (dyadic ((bc % 2 ^ 23 + 2 ^ 23 : Nat) : Int) ((((bc >>> 23) % 256 : Nat) : Int) - 127 - 23)))
      (Model.assignF32 c bc) = true := by
  rw [assignF32_normal c bc h1 h2]
  refine ⟨?_, assignCore_above c 23 32 _ _ _ hes hn hhi⟩
  unfold Model.assignCore
  simp only [ge_iff_le, hhi, if_true]

theorem C18_above_range_f64 (c : Model.Cfg) (bc : Nat) (hes : 1 ≤ c.es) (hn : c.es + 3 ≤ c.nbits)
    (h1 : 1 ≤ (bc >>> 52) % 2048) (h2 : (bc >>> 52) % 2048 ≤ 2046)
    (hhi : c.MAX_EXP ≤ (((bc >>> 52) % 2048 : Nat) : Int) - 1023) :
    Model.assignF64 c bc = (if bc.testBit 63 then Model.maxneg c else Model.maxpos c) ||| 1 ∧
    encloses (specCfg c)
      (.fin (bc.testBit 63) (dyadic ((bc % 2 ^ 52 + 2 ^ 52 : Nat) : Int) ((((bc >>> 52) % 2048 : Nat) : Int) - 1023 - 52)))
      (Model.assignF64 c bc) = true := by
  rw [assignF64_normal c bc h1 h2]
  refine ⟨?_, assignCore_above c 52 64 _ _ _ hes hn hhi⟩
  unfold Model.assignCore
  simp only [ge_iff_le, hhi, if_true]

/-- C18, the all-ones corner of the top binade (float; target not wider than the source): exponent = MAX_EXP-1 and the leading
    fbits fraction bits all ones ↦ saturation (maxpos, ∞) / (-∞, maxneg), which encloses the source -/
theorem C18_top_binade_allones_f32 (c : Model.Cfg) (bc : Nat) (hes : 1 ≤ c.es) (hn : c.es + 3 ≤ c.nbits)
    (hW : c.nbits ≤ 32) (hsr : c.fbits ≤ 23)
    (h1 : 1 ≤ (bc >>> 23) % 256) (h2 : (bc >>> 23) % 256 ≤ 254)
    (he : (((bc >>> 23) % 256 : Nat) : Int) - 127 = c.MAX_EXP - 1)
    (hf : (bc % 2 ^ 23) / 2 ^ (23 - c.fbits) = 2 ^ c.fbits - 1) :
    Model.assignF32 c bc = (if bc.testBit 31 then Model.maxneg c else Model.maxpos c) ||| 1 ∧
    encloses (specCfg c)
      (.fin (bc.testBit 31) (dyadic ((bc % 2 ^ 23 + 2 ^ 23 : Nat) : Int) ((((bc >>> 23) % 256 : Nat) : Int) - 127 - 23)))
      (Model.assignF32 c bc) = true := by
  rw [assignF32_normal c bc h1 h2]
  have hf' : bc % 2 ^ 23 * 2 ^ (c.fbits - 23) / 2 ^ (23 - c.fbits) = 2 ^ c.fbits - 1 := by
    rw [show c.fbits - 23 = 0 by omega, Nat.pow_zero, Nat.mul_one]; exact hf
  exact ⟨assignCore_top c 23 32 _ _ _ hes (Nat.mod_lt _ (Nat.two_pow_pos _)) (by unfold Model.Cfg.fbits; omega) he hf',
    assignCore_top_encloses c 23 32 _ _ _ hes hn hW (Nat.mod_lt _ (Nat.two_pow_pos _)) he hf'⟩

theorem C18_top_binade_allones_f64 (c : Model.Cfg) (bc : Nat) (hes : 1 ≤ c.es) (hn : c.es + 3 ≤ c.nbits)
    (hW : c.nbits ≤ 64) (hsr : c.fbits ≤ 52)
    (h1 : 1 ≤ (bc >>> 52) % 2048) (h2 : (bc >>> 52) % 2048 ≤ 2046)
    (he : (((bc >>> 52) % 2048 : Nat) : Int) - 1023 = c.MAX_EXP - 1)
    (hf : (bc % 2 ^ 52) / 2 ^ (52 - c.fbits) = 2 ^ c.fbits - 1) :
    Model.assignF64 c bc = (if bc.testBit 63 then Model.maxneg c else Model.maxpos c) ||| 1 ∧
    encloses (specCfg c)
      (.fin (bc.testBit 63) (dyadic ((bc % 2 ^ 52 + 2 ^ 52 : Nat) : Int) ((((bc >>> 52) % 2048 : Nat) : Int) - 1023 - 52)))
      (Model.assignF64 c bc) = true := by
  rw [assignF64_normal c bc h1 h2]
  have hf' : bc % 2 ^ 52 * 2 ^ (c.fbits - 52) / 2 ^ (52 - c.fbits) = 2 ^ c.fbits - 1 := by
    rw [show c.fbits - 52 = 0 by omega, Nat.pow_zero, Nat.mul_one]; exact hf
  exact ⟨assignCore_top c 52 64 _ _ _ hes (Nat.mod_lt _ (Nat.two_pow_pos _)) (by unfold Model.Cfg.fbits; omega) he hf',
    assignCore_top_encloses c 52 64 _ _ _ hes hn hW (Nat.mod_lt _ (Nat.two_pow_pos _)) he hf'⟩

/-- C18, sources below the range (float, normal source): exponent < MIN_EXP_SUBNORMAL ↦ the open interval next to zero -/
theorem C18_below_range_f32 (c : Model.Cfg) (bc : Nat) (hes : 1 ≤ c.es) (hn : c.es + 3 ≤ c.nbits)
    (h1 : 1 ≤ (bc >>> 23) % 256) (h2 : (bc >>> 23) % 256 ≤ 254)
    (hlo : (((bc >>> 23) % 256 : Nat) : Int) - 127 < c.MIN_EXP_SUBNORMAL) :
    encloses (specCfg c)
      (.fin (bc.testBit 31) (dyadic ((bc % 2 ^ 23 + 2 ^ 23 : Nat) : Int) ((((bc >>> 23) % 256 : Nat) : Int) - 127 - 23)))
      (Model.assignF32 c bc) = true := by
  rw [assignF32_normal c bc h1 h2]
  exact assignCore_below c 23 32 _ _ _ hes hn (Nat.mod_lt _ (Nat.two_pow_pos _)) hlo

theorem C18_below_range_f64 (c : Model.Cfg) (bc : Nat) (hes : 1 ≤ c.es) (hn : c.es + 3 ≤ c.nbits)
    (h1 : 1 ≤ (bc >>> 52) % 2048) (h2 : (bc >>> 52) % 2048 ≤ 2046)
    (hlo : (((bc >>> 52) % 2048 : Nat) : Int) - 1023 < c.MIN_EXP_SUBNORMAL) :
    encloses (specCfg c)
      (.fin (bc.testBit 63) (dyadic ((bc % 2 ^ 52 + 2 ^ 52 : Nat) : Int) ((((bc >>> 52) % 2048 : Nat) : Int) - 1023 - 52)))
      (Model.assignF64 c bc) = true := by
  rw [assignF64_normal c bc h1 h2]
  exact assignCore_below c 52 64 _ _ _ hes hn (Nat.mod_lt _ (Nat.two_pow_pos _)) hlo

/-- C18, subnormal float sources (exponent field 0, fraction ≠ 0; value fraction·2^-149): enclosed, whatever the target
    (flushed to (0, minpos), a target subnormal, or — es ≥ 9 — a target normal number) -/
theorem C18_subnormal_source_f32 (c : Model.Cfg) (bc : Nat)
    (hes : 1 ≤ c.es) (hn : c.es + 3 ≤ c.nbits) (hw : 1 ≤ c.w) (hW : c.nbits ≤ 32)
    (hst : c.nrBlocks = 1 ∨ c.nrBlocks ≤ 33 / c.w)
    (h0 : (bc >>> 23) % 256 = 0) (hf : bc % 2 ^ 23 ≠ 0) :
    encloses (specCfg c) (.fin (bc.testBit 31) (dyadic ((bc % 2 ^ 23 : Nat) : Int) (1 - 127 - 23)))
      (Model.assignF32 c bc) = true := by
  have hraw : bc % 2 ^ 23 < 2 ^ 23 := Nat.mod_lt _ (Nat.two_pow_pos _)
  obtain ⟨n1, n2⟩ := normalizeSrc_subnormal 23 127 (bc % 2 ^ 23) hraw (Nat.pos_of_ne_zero hf)
  have hcore : Model.assignF32 c bc = Model.assignCore c 23 32 (bc.testBit 31)
      (Model.normalizeSrc 23 127 0 (bc % 2 ^ 23)).1 (Model.normalizeSrc 23 127 0 (bc % 2 ^ 23)).2 := by
    unfold Model.assignF32
    have hf' : ¬ bc % 8388608 = 0 := by norm_num at hf; exact hf
    simp [h0, hf']
  rw [hcore]
  have h := assignCore_encloses_all c 23 32 (bc.testBit 31) (Model.normalizeSrc 23 127 0 (bc % 2 ^ 23)).1
    (Model.normalizeSrc 23 127 0 (bc % 2 ^ 23)).2 hes hn hw hW (by omega) hst n1
  have n2' : dyadic ((bc % 2 ^ 23 : Nat) : Int) (1 - 127 - 23) =
      dyadic (((Model.normalizeSrc 23 127 0 (bc % 2 ^ 23)).2 + 2 ^ 23 : Nat) : Int)
        ((Model.normalizeSrc 23 127 0 (bc % 2 ^ 23)).1 - ((23 : Nat) : Int)) := by
    simpa using n2
  rw [n2']; exact h

theorem C18_subnormal_source_f64 (c : Model.Cfg) (bc : Nat)
    (hes : 1 ≤ c.es) (hn : c.es + 3 ≤ c.nbits) (hw : 1 ≤ c.w) (hW : c.nbits ≤ 64)
    (hst : c.nrBlocks = 1 ∨ c.nrBlocks ≤ 65 / c.w)
    (h0 : (bc >>> 52) % 2048 = 0) (hf : bc % 2 ^ 52 ≠ 0) :
    encloses (specCfg c) (.fin (bc.testBit 63) (dyadic ((bc % 2 ^ 52 : Nat) : Int) (1 - 1023 - 52)))
      (Model.assignF64 c bc) = true := by
  have hraw : bc % 2 ^ 52 < 2 ^ 52 := Nat.mod_lt _ (Nat.two_pow_pos _)
  obtain ⟨n1, n2⟩ := normalizeSrc_subnormal 52 1023 (bc % 2 ^ 52) hraw (Nat.pos_of_ne_zero hf)
  have hcore : Model.assignF64 c bc = Model.assignCore c 52 64 (bc.testBit 63)
      (Model.normalizeSrc 52 1023 0 (bc % 2 ^ 52)).1 (Model.normalizeSrc 52 1023 0 (bc % 2 ^ 52)).2 := by
    unfold Model.assignF64
    have hf' : ¬ bc % 4503599627370496 = 0 := by norm_num at hf; exact hf
    simp [h0, hf']
  rw [hcore]
  have h := assignCore_encloses_all c 52 64 (bc.testBit 63) (Model.normalizeSrc 52 1023 0 (bc % 2 ^ 52)).1
    (Model.normalizeSrc 52 1023 0 (bc % 2 ^ 52)).2 hes hn hw hW (by omega) hst n1
  have n2' : dyadic ((bc % 2 ^ 52 : Nat) : Int) (1 - 1023 - 52) =
      dyadic (((Model.normalizeSrc 52 1023 0 (bc % 2 ^ 52)).2 + 2 ^ 52 : Nat) : Int)
        ((Model.normalizeSrc 52 1023 0 (bc % 2 ^ 52)).1 - ((52 : Nat) : Int)) := by
    simpa using n2
  rw [n2']; exact h

/-! ### the full statement -/

/-- value of a float pattern as the spec source -/
def srcOfF32 (bc : Nat) : Src :=
  let e := (bc >>> 23) % 256
  let f := bc % 2 ^ 23
  if e = 255 then (if f = 0 then .inf (bc.testBit 31) else .nan)
  else .fin (bc.testBit 31) (dyadic ((if e = 0 then f else f + 2 ^ 23 : Nat) : Int) (((max e 1 : Nat) : Int) - 127 - 23))

/-- value of a double pattern as the spec source -/
def srcOfF64 (bc : Nat) : Src :=
  let e := (bc >>> 52) % 2048
  let f := bc % 2 ^ 52
  if e = 2047 then (if f = 0 then .inf (bc.testBit 63) else .nan)
  else .fin (bc.testBit 63) (dyadic ((if e = 0 then f else f + 2 ^ 52 : Nat) : Int) (((max e 1 : Nat) : Int) - 1023 - 52))

/-- C18 for float sources, everything at once: EVERY float (finite, ±0, ±inf, NaN with any payload, subnormal, out of range)
    is enclosed by its conversion, for every areal<nbits,es,bt> with nbits ≤ 32 whose limb store covers nbits. -/
theorem C18_encloses_every_f32 (c : Model.Cfg) (bc : Nat)
    (hes : 1 ≤ c.es) (hn : c.es + 3 ≤ c.nbits) (hw : 1 ≤ c.w) (hW : c.nbits ≤ 32)
    (hst : c.nrBlocks = 1 ∨ c.nrBlocks ≤ 33 / c.w) :
    encloses (specCfg c) (srcOfF32 bc) (Model.assignF32 c bc) = true := by
  obtain ⟨s1, s2, s3⟩ := C18_specials_f32 c hes hn bc
  have hsub := C18_subnormal_source_f32 c bc hes hn hw hW hst
  have hnor := C18_encloses_normal_f32 c bc hes hn hw hW hst
  unfold srcOfF32
  have helt : (bc >>> 23) % 256 < 256 := Nat.mod_lt _ (by norm_num)
  generalize he : (bc >>> 23) % 256 = e at *
  generalize hf : bc % 2 ^ 23 = f at *
  by_cases h255 : e = 255
  · simp only [h255, if_true]
    by_cases hf0 : f = 0
    · simp only [hf0, if_true]; exact s1 h255 hf0
    · simp only [hf0, if_false]; exact s2 h255 hf0
  simp only [h255, if_false]
  by_cases h0 : e = 0
  · by_cases hf0 : f = 0
    · have := s3 h0 hf0
      simpa [h0, hf0, dyadic_def] using this
    · have := hsub h0 hf0
      simpa [h0] using this
  · have h1 : 1 ≤ e := Nat.one_le_iff_ne_zero.mpr h0
    have hmax1 : max e 1 = e := by omega
    simp only [h0, if_false, hmax1]
    exact hnor h1 (by omega)

/-- C18 for double sources, everything at once (nbits ≤ 64) -/
theorem C18_encloses_every_f64 (c : Model.Cfg) (bc : Nat)
    (hes : 1 ≤ c.es) (hn : c.es + 3 ≤ c.nbits) (hw : 1 ≤ c.w) (hW : c.nbits ≤ 64)
    (hst : c.nrBlocks = 1 ∨ c.nrBlocks ≤ 65 / c.w) :
    encloses (specCfg c) (srcOfF64 bc) (Model.assignF64 c bc) = true := by
  obtain ⟨s1, s2, s3⟩ := C18_specials_f64 c hes hn bc
  have hsub := C18_subnormal_source_f64 c bc hes hn hw hW hst
  have hnor := C18_encloses_normal_f64 c bc hes hn hw hW hst
  unfold srcOfF64
  have helt : (bc >>> 52) % 2048 < 2048 := Nat.mod_lt _ (by norm_num)
  generalize he : (bc >>> 52) % 2048 = e at *
  generalize hf : bc % 2 ^ 52 = f at *
  by_cases h2047 : e = 2047
  · simp only [h2047, if_true]
    by_cases hf0 : f = 0
    · simp only [hf0, if_true]; exact s1 h2047 hf0
    · simp only [hf0, if_false]; exact s2 h2047 hf0
  simp only [h2047, if_false]
  by_cases h0 : e = 0
  · by_cases hf0 : f = 0
    · have := s3 h0 hf0
      simpa [h0, hf0, dyadic_def] using this
    · have := hsub h0 hf0
      simpa [h0] using this
  · have h1 : 1 ≤ e := Nat.one_le_iff_ne_zero.mpr h0
    have hmax1 : max e 1 = e := by omega
    simp only [h0, if_false, hmax1]
    exact hnor h1 (by omega)

/-- the limb store covers the encoding for the block types uint8_t / uint16_t / uint32_t (and uint64_t for double) -/
theorem store_covers (c : Model.Cfg) (W : Nat) (hW : c.nbits ≤ W) (hn : 1 ≤ c.nbits) (hw : c.w = 8 ∨ c.w = 16 ∨ c.w = 32 ∨ c.w = 64)
    (hWv : W = 32 ∨ W = 64) : c.nrBlocks = 1 ∨ c.nrBlocks ≤ (W + 1) / c.w := by
  unfold Model.Cfg.nrBlocks
  rcases hWv with rfl | rfl <;> rcases hw with h | h | h | h <;> rw [h] <;> omega

/-- **C18, the property as stated**: EVERY float is enclosed by its areal conversion, for every areal<nbits,es,bt> with
    nbits ≤ 32 and bt ∈ {uint8_t, uint16_t, uint32_t}.  (This statement was refuted for the pinned code — D13 — and holds for
    the repaired code.) -/
theorem C18_encloses_full :
    ∀ (c : Model.Cfg) (bc : Nat), 1 ≤ c.es → c.es + 3 ≤ c.nbits → c.nbits ≤ 32 → c.w ∈ [8, 16, 32] → bc < 2 ^ 32 →
      encloses (specCfg c) (srcOfF32 bc) (Model.assignF32 c bc) = true := by
  intro c bc hes hn hW hw _
  have hw' : c.w = 8 ∨ c.w = 16 ∨ c.w = 32 ∨ c.w = 64 := by
    simp only [List.mem_cons, List.mem_nil_iff, or_false] at hw; omega
  exact C18_encloses_every_f32 c bc hes hn (by omega) hW (store_covers c 32 hW (by omega) hw' (Or.inl rfl))

/-- **C18 for double sources**: EVERY double is enclosed by its areal conversion, nbits ≤ 64, bt ∈ {uint8_t … uint64_t} -/
theorem C18_encloses_full_f64 :
    ∀ (c : Model.Cfg) (bc : Nat), 1 ≤ c.es → c.es + 3 ≤ c.nbits → c.nbits ≤ 64 → c.w ∈ [8, 16, 32, 64] → bc < 2 ^ 64 →
      encloses (specCfg c) (srcOfF64 bc) (Model.assignF64 c bc) = true := by
  intro c bc hes hn hW hw _
  have hw' : c.w = 8 ∨ c.w = 16 ∨ c.w = 32 ∨ c.w = 64 := by
    simp only [List.mem_cons, List.mem_nil_iff, or_false] at hw; omega
  exact C18_encloses_every_f64 c bc hes hn (by omega) hW (store_covers c 64 hW (by omega) hw' (Or.inr rfl))

/-! ### the former D13 counterexamples, now positive at the same witnesses -/

-- float 8.0 into areal<6,2>: exponent 3 = MAX_EXP ↦ (maxpos, ∞) = 0b011101 (was 0x20: the biased exponent spilled into the sign bit)
theorem C18_exp_eq_MAX_EXP_witness :
    Model.assignF32 ⟨6, 2, 8⟩ 0x41000000 = 0x1d ∧
    encloses ⟨6, 2⟩ (.fin false 8) (Model.assignF32 ⟨6, 2, 8⟩ 0x41000000) = true := by decide +kernel

-- float 7.0 = 1.11b·2^2 into areal<6,2>: exponent 2 = MAX_EXP-1 and both fraction bits set ↦ (maxpos, ∞) (was the +inf pattern 0x1e)
theorem C18_top_binade_allones_witness :
    Model.assignF32 ⟨6, 2, 8⟩ 0x40e00000 = 0x1d ∧
    encloses ⟨6, 2⟩ (.fin false 7) (Model.assignF32 ⟨6, 2, 8⟩ 0x40e00000) = true := by decide +kernel

-- NaN with payload 0x200000 (numeric_limits<float>::signaling_NaN) ↦ the signalling NaN encoding (was converted as a number)
theorem C18_nan_payload_witness :
    Model.assignF32 ⟨6, 2, 8⟩ 0x7fa00000 = 0x3f ∧
    encloses ⟨6, 2⟩ .nan (Model.assignF32 ⟨6, 2, 8⟩ 0x7fa00000) = true := by decide

-- the subnormal float 2^-127 into areal<12,8>: the subnormal encoding 0.10b·2^-126 (was the encoding of 2^-128)
theorem C18_subnormal_source_witness :
    Model.assignF32 ⟨12, 8, 8⟩ 0x00400000 = 0x4 ∧
    encloses ⟨12, 8⟩ (srcOfF32 0x00400000) (Model.assignF32 ⟨12, 8, 8⟩ 0x00400000) = true := by decide +kernel

-- target fraction as wide as the source minus one bit (areal<32,8>, fbits = 22): the dropped bit is reflected in the ubit
theorem C18_target_not_narrower_witness :
    Model.assignF32 ⟨32, 8, 8⟩ 0x4b000001 = 0x4b000001 ∧
    encloses ⟨32, 8⟩ (srcOfF32 0x4b000001) (Model.assignF32 ⟨32, 8, 8⟩ 0x4b000001) = true := by decide +kernel

/-! ### non-vacuity -/

-- areal<8,3,uint8_t>: float 1.3125 (0x3fa80000) has one set bit below the 4-bit target fraction: ubit set
example : Model.assignF32 ⟨8, 3, 8⟩ 0x3fa80000 = 0x35 := by decide
-- subnormal target: areal<8,3>: 2^-4·1.5 lies in the subnormal range (MIN_EXP_NORMAL = -2)
example : Model.assignF32 ⟨8, 3, 8⟩ 0x3dc00000 = 0x06 := by decide
-- two blocks: areal<12,4,uint8_t>
example : Model.assignF64 ⟨12, 4, 8⟩ 0x3ff8000000000001 = 0x3c1 := by decide
-- wider target (left shift): areal<32,5> (fbits = 25) from 1 + 2^-23
example : Model.assignF32 ⟨32, 5, 8⟩ 0x3f800001 = 0x3c000008 := by decide
-- subnormal double into areal<16,11>: 2^-1025 + 2^-1074 ↦ fraction 001 with the ubit set
example : Model.assignF64 ⟨16, 11, 8⟩ 0x0002000000000001 = 0x3 := by decide
-- the hypotheses of the full theorems are satisfiable: areal<6,2,uint8_t>, areal<64,11,uint32_t>
example : (1 ≤ (⟨6, 2, 8⟩ : Model.Cfg).es ∧ (⟨6, 2, 8⟩ : Model.Cfg).es + 3 ≤ (⟨6, 2, 8⟩ : Model.Cfg).nbits ∧
    (⟨6, 2, 8⟩ : Model.Cfg).nbits ≤ 32 ∧ (⟨6, 2, 8⟩ : Model.Cfg).w ∈ [8, 16, 32]) ∧
    ((⟨64, 11, 32⟩ : Model.Cfg).nbits ≤ 64 ∧ (⟨64, 11, 32⟩ : Model.Cfg).w ∈ [8, 16, 32, 64]) := by decide
