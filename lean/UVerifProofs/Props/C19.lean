/-
  Property C19 — exception mode changes error signalling only, never a computed value.

  Model: `UVerif.Exc.*.prologue` (lean/UVerif/Model/Except.lean) transcribes, for both settings of the
  `*_THROW_ARITHMETIC_EXCEPTION` switch, the part of each operator that differs between the builds; `runT p core` /
  `runQ p core` run the throwing / quiet build on the prologue `p` followed by the shared arithmetic, whose value `core` is
  universally quantified (it is the same source text in both builds; that it compiles to the same function is checked by
  the differential run only).   Spec: `UVerif.Exc.*Spec.err` / `kind` (lean/UVerif/Spec/Except.lean), from the property text.

  Shape of every family theorem (all widths, all operands, all shared-arithmetic values):
     value : runT p core = .val r → runQ p core = .val r
     throws: runT p core = .thrown k ↔ err inputs ∧ k = kind inputs
  (cfloat `+= -= *=`: the model follows the code after fix d2b4539, which repaired D22; the value clause is a full theorem.)
  (lns `/=`: the model follows the code after the fix "lns operator/= must test for a zero divisor before the NaN operands";
   `C19_lns_throws` is a full theorem.)
  Where the pinned code violates one of the two, the theorem carries the excluded operand class as a decidable hypothesis
  (`…_partial`) and the negation is proved at a concrete witness (`…_counterexample`).
-/
import UVerif.Model.Except
import UVerifProofs.Lemmas.Except

open UVerif UVerif.Exc
open CFloatSpec (Cfg)

/-! ### posit -/

/-- prologue level: no throw ⇒ the two builds take the same early exit. Every width, operator, operand pair. -/
theorem C19_posit_prologues_agree (n : Nat) (op : Op) (a b : Nat) :
    (Posit.prologue n op a b).throws = none →
      (Posit.prologue n op a b).qEarly = (Posit.prologue n op a b).tEarly ∧ (Posit.prologue n op a b).qTrap = false := by
  unfold Posit.prologue Posit.divFlag
  cases op <;> simp only [] <;>
    cases Posit.isNaR n a <;> cases Posit.isNaR n b <;> cases Posit.isZero n a <;> cases Posit.isZero n b <;> simp

/-- value clause: whatever the shared arithmetic computes, a value returned by the throwing build is the quiet build's. -/
theorem C19_posit_value (n : Nat) (op : Op) (a b core r : Nat) :
    runT (Posit.prologue n op a b) core = .val r → runQ (Posit.prologue n op a b) core = .val r :=
  run_value_agree _ (C19_posit_prologues_agree n op a b) core r

/-- throw clause for `+ - * /` and the integer conversions: the throwing build throws exactly on the property's operand
    list (NaR operand, division by zero or NaR) and the type is the documented one. -/
theorem C19_posit_throws_partial (n : Nat) (op : Op) (a b : Nat) (k : ExcKind)
    (hn : 1 ≤ n) (ha : a < 2 ^ n) (hb : b < 2 ^ n) (hop : op ≠ .recip) :
    (Posit.prologue n op a b).throws = some k ↔ (PositSpec.err n op a b = true ∧ k = PositSpec.kind n op a b) := by
  unfold Posit.prologue Posit.divFlag PositSpec.err PositSpec.kind
  rw [posit_isNaR_iff n a hn ha, posit_isNaR_iff n b hn hb, posit_isZero_iff, posit_isZero_iff]
  have hxa := positSpec_nar_not_zero n a
  have hxb := positSpec_nar_not_zero n b
  generalize PositSpec.isNaR n a = na at *
  generalize PositSpec.isNaR n b = nb at *
  generalize PositSpec.isZero n a = za at *
  generalize PositSpec.isZero n b = zb at *
  cases op <;> simp only [] <;> try (exact absurd rfl hop)
  all_goals
    cases na <;> cases nb <;> cases za <;> cases zb <;> simp [eq_comm] at hxa hxb ⊢

/-- the two post-arithmetic throws of `operator/=` (`posit_division_result_is_zero`, `…_is_infinite`) are unreachable:
    after the prologue neither operand is zero or NaR, so `module_divide` sets neither flag. -/
theorem C19_posit_no_result_exception (n : Nat) (op : Op) (a b : Nat) :
    (Posit.prologue n op a b).throws ≠ some .posit_division_result_is_zero ∧
    (Posit.prologue n op a b).throws ≠ some .posit_division_result_is_infinite := by
  unfold Posit.prologue Posit.divFlag
  cases op <;> simp only [] <;>
    cases Posit.isNaR n a <;> cases Posit.isNaR n b <;> cases Posit.isZero n a <;> cases Posit.isZero n b <;> simp

/-- C19 for posit `+ - * /` and conversions, in terms of the two builds. -/
theorem C19_posit (n : Nat) (op : Op) (a b core : Nat) (hn : 1 ≤ n) (ha : a < 2 ^ n) (hb : b < 2 ^ n) (hop : op ≠ .recip) :
    (∀ r, runT (Posit.prologue n op a b) core = .val r → runQ (Posit.prologue n op a b) core = .val r) ∧
    (∀ k, runT (Posit.prologue n op a b) core = .thrown k ↔ (PositSpec.err n op a b = true ∧ k = PositSpec.kind n op a b)) :=
  ⟨fun r => C19_posit_value n op a b core r,
   fun k => (runT_thrown_iff _ core k).trans (C19_posit_throws_partial n op a b k hn ha hb hop)⟩

/-- posit: the executable spec predicate accepts the outcome pair of the two builds for every width, `+ - * /` and
    conversion operand, and every value of the shared arithmetic. -/
theorem C19_posit_spec_accepts (n : Nat) (op : Op) (a b core : Nat)
    (hn : 1 ≤ n) (ha : a < 2 ^ n) (hb : b < 2 ^ n) (hop : op ≠ .recip) :
    specHolds (PositSpec.err n op a b) (PositSpec.kindApplies n op a b) false
      ((runQ (Posit.prologue n op a b) core).obs toHex) ((runT (Posit.prologue n op a b) core).obs toHex)
      (Posit.prologue n op a b).qStderr = true :=
  specHolds_of_model toHex _ core _ _ false (PositSpec.kind n op a b) (C19_posit_prologues_agree n op a b)
    (fun k => C19_posit_throws_partial n op a b k hn ha hb hop) (positSpec_kind_applies n op a b) (by simp)

/-- the full throw clause (including `reciprocal()`), FALSE of the pinned code: -/
def C19_posit_throws_full : Prop :=
  ∀ (n : Nat) (op : Op) (a b : Nat) (k : ExcKind), 1 ≤ n → a < 2 ^ n → b < 2 ^ n →
    ((Posit.prologue n op a b).throws = some k ↔ (PositSpec.err n op a b = true ∧ k = PositSpec.kind n op a b))

/-- `posit<8,1>::reciprocal()` of zero: quiet mode signals (returns NaR), the throwing build has no throw to reach. -/
theorem C19_posit_reciprocal_counterexample : ¬ C19_posit_throws_full := by
  intro h
  have := (h 8 .recip 0 0 .posit_divide_by_zero (by decide) (by decide) (by decide)).2 (by decide)
  exact absurd this (by decide)

-- non-vacuity: a NaR operand of posit<16,1> addition throws, an ordinary pair falls through in both builds
example : (Posit.prologue 16 .add 0x8000 0x4000).throws = some .posit_operand_is_nar := by decide
example : runT (Posit.prologue 16 .add 0x4000 0x3000) 0x4400 = .val 0x4400 ∧ runQ (Posit.prologue 16 .add 0x4000 0x3000) 0x4400 = .val 0x4400 := by decide
example : PositSpec.err 16 .div 0x4000 0 = true ∧ PositSpec.kind 16 .div 0x4000 0 = .posit_divide_by_zero := by decide


/-! ### cfloat — signalling NaN operand, division by zero / NaN

Configuration `c = (nbits, es, subnormals, supernormals)` with at least one fraction bit; encodings canonical. -/

/-- prologue level (code after fix d2b4539: the quiet-NaN test of `+= -= *=` follows the `#endif`; `/=`: the throwing build
    returns the quiet NaN for a quiet-NaN numerator): no throw ⇒ the two builds take the same early exit — in particular both
    return quiet NaN for a quiet-NaN operand. -/
theorem C19_cfloat_prologues_agree (c : Cfg) (op : Op) (a b : Nat)
    (hf : c.es + 2 ≤ c.n) (ha : a < 2 ^ c.n) (hb : b < 2 ^ c.n) :
    (CFloat.prologue c op a b).throws = none →
      (CFloat.prologue c op a b).qEarly = (CFloat.prologue c op a b).tEarly ∧ (CFloat.prologue c op a b).qTrap = false := by
  rw [cfloat_prologue_spec c op a b hf ha hb]
  rw [cfloatSpec_nan_split c b]
  generalize CFloatSpec.isSNaN c a = sa at *
  generalize CFloatSpec.isSNaN c b = sb at *
  generalize CFloatSpec.isQNaN c a = qa at *
  generalize CFloatSpec.isQNaN c b = qb at *
  generalize CFloatSpec.isZero c a = za at *
  generalize CFloatSpec.isZero c b = zb at *
  cases op <;> simp only [] <;>
    cases sa <;> cases sb <;> cases qa <;> cases qb <;> cases zb <;> simp

/-- value clause, every operator and operand pair (quiet-NaN operands included): whatever the shared arithmetic computes, a
    value returned by the throwing build is the quiet build's value. -/
theorem C19_cfloat_value (c : Cfg) (op : Op) (a b core r : Nat)
    (hf : c.es + 2 ≤ c.n) (ha : a < 2 ^ c.n) (hb : b < 2 ^ c.n) :
    runT (CFloat.prologue c op a b) core = .val r → runQ (CFloat.prologue c op a b) core = .val r :=
  run_value_agree _ (C19_cfloat_prologues_agree c op a b hf ha hb) core r

/-- full statement of the throw clause: the throwing build throws exactly for the documented operands, with the documented type -/
def C19_cfloat_throws_full : Prop :=
  ∀ (c : Cfg) (op : Op) (a b : Nat) (k : ExcKind), c.es + 2 ≤ c.n → a < 2 ^ c.n → b < 2 ^ c.n →
    ((CFloat.prologue c op a b).throws = some k ↔ (CFloatSpec.err c op a b = true ∧ k = CFloatSpec.kind c op a b))

/-- **throw clause, every operator and operand pair** (since the repair "operator/= in the throwing build must propagate a
    quiet NaN numerator instead of throwing" the former exception, a quiet-NaN numerator over an ordinary divisor, is gone). -/
theorem C19_cfloat_throws : C19_cfloat_throws_full := by
  intro c op a b k hf ha hb
  rw [cfloat_prologue_spec c op a b hf ha hb]
  unfold CFloatSpec.err CFloatSpec.kind
  rw [cfloatSpec_nan_split c b] at *
  generalize CFloatSpec.isSNaN c a = sa at *
  generalize CFloatSpec.isSNaN c b = sb at *
  generalize CFloatSpec.isQNaN c a = qa at *
  generalize CFloatSpec.isQNaN c b = qb at *
  generalize CFloatSpec.isZero c a = za at *
  generalize CFloatSpec.isZero c b = zb at *
  cases op <;> simp only [] <;>
    cases sa <;> cases sb <;> cases qa <;> cases qb <;> cases zb <;> simp <;> exact eq_comm

theorem C19_cfloat (c : Cfg) (op : Op) (a b core : Nat) (hf : c.es + 2 ≤ c.n) (ha : a < 2 ^ c.n) (hb : b < 2 ^ c.n) :
    (∀ r, runT (CFloat.prologue c op a b) core = .val r → runQ (CFloat.prologue c op a b) core = .val r) ∧
    (∀ k, runT (CFloat.prologue c op a b) core = .thrown k ↔ (CFloatSpec.err c op a b = true ∧ k = CFloatSpec.kind c op a b)) :=
  ⟨fun r => C19_cfloat_value c op a b core r hf ha hb,
   fun k => (runT_thrown_iff _ core k).trans (C19_cfloat_throws c op a b k hf ha hb)⟩

/-- cfloat: the spec predicate accepts the outcome pair of the two builds for every operator and operand pair. -/
theorem C19_cfloat_spec_accepts (c : Cfg) (op : Op) (a b core : Nat) (hf : c.es + 2 ≤ c.n) (ha : a < 2 ^ c.n) (hb : b < 2 ^ c.n) :
    specHolds (CFloatSpec.err c op a b) (CFloatSpec.kindApplies c op a b) false
      ((runQ (CFloat.prologue c op a b) core).obs toHex) ((runT (CFloat.prologue c op a b) core).obs toHex)
      (CFloat.prologue c op a b).qStderr = true :=
  specHolds_of_model toHex _ core _ _ false (CFloatSpec.kind c op a b) (C19_cfloat_prologues_agree c op a b hf ha hb)
    (fun k => C19_cfloat_throws c op a b k hf ha hb) (cfloatSpec_kind_applies c op a b) (by simp)

/-- the former witness `cfloat<8,2,uint8_t,true,true,false>`: qNaN / (the encoding 0x01) no longer throws; both builds return
    the quiet NaN -/
example : runT (CFloat.prologue ⟨8, 2, true, true⟩ .div 0x7f 0x01) 0 = .val 0x7f ∧
    runQ (CFloat.prologue ⟨8, 2, true, true⟩ .div 0x7f 0x01) 0 = .val 0x7f ∧
    runT (CFloat.prologue ⟨8, 2, true, true⟩ .div 0xff 0x01) 0 = .thrown .cfloat_operand_is_nan := by decide

-- non-vacuity: half precision, 1.0 + qNaN is qNaN in both builds (the D22 operands); sNaN + 1.0 throws; 1.0 / -0 throws divide_by_zero; an ordinary pair falls through
example : runT (CFloat.prologue ⟨16, 5, true, false⟩ .add 0x3c00 0x7fff) 0x3c00 = .val 0x7fff ∧
    runQ (CFloat.prologue ⟨16, 5, true, false⟩ .add 0x3c00 0x7fff) 0x3c00 = .val 0x7fff := by decide
example : runT (CFloat.prologue ⟨16, 5, true, false⟩ .add 0xffff 0x3c00) 0 = .thrown .cfloat_operand_is_nan := by decide
example : runT (CFloat.prologue ⟨16, 5, true, false⟩ .div 0x3c00 0x8000) 0 = .thrown .cfloat_divide_by_zero ∧
    runQ (CFloat.prologue ⟨16, 5, true, false⟩ .div 0x3c00 0x8000) 0 = .val 0xfffe := by decide
example : runT (CFloat.prologue ⟨16, 5, true, false⟩ .mul 0x3c00 0x4000) 0x4000 = .val 0x4000 ∧
    runQ (CFloat.prologue ⟨16, 5, true, false⟩ .mul 0x3c00 0x4000) 0x4000 = .val 0x4000 := by decide

/-! ### fixpnt — division by zero -/

theorem C19_fixpnt_value (op : Op) (a b core r : Nat) :
    runT (Fixpnt.prologue op a b) core = .val r → runQ (Fixpnt.prologue op a b) core = .val r := by
  apply run_value_agree
  unfold Fixpnt.prologue
  cases op <;> simp only [] <;> cases (b == 0) <;> simp

theorem C19_fixpnt_throws (op : Op) (a b : Nat) (k : ExcKind) (hop : op ≠ .rem) :
    (Fixpnt.prologue op a b).throws = some k ↔ (FixedSpec.err op a b = true ∧ k = .fixpnt_divide_by_zero) := by
  unfold Fixpnt.prologue FixedSpec.err
  by_cases hb : b = 0
  · subst hb
    cases op <;> simp at hop ⊢ <;> exact eq_comm
  · have hb' : (b == 0) = false := by simpa using hb
    cases op <;> simp [hb']

/-- quiet mode's signal (the message on std::cerr) is raised for exactly the operands the throwing build throws for. -/
theorem C19_fixpnt_quiet_signal (op : Op) (a b : Nat) :
    (Fixpnt.prologue op a b).qStderr = ((Fixpnt.prologue op a b).throws).isSome := by
  unfold Fixpnt.prologue
  cases op <;> simp only [] <;> cases (b == 0) <;> simp

theorem C19_fixpnt (op : Op) (a b core : Nat) (hop : op ≠ .rem) :
    (∀ r, runT (Fixpnt.prologue op a b) core = .val r → runQ (Fixpnt.prologue op a b) core = .val r) ∧
    (∀ k, runT (Fixpnt.prologue op a b) core = .thrown k ↔ (FixedSpec.err op a b = true ∧ k = .fixpnt_divide_by_zero)) :=
  ⟨fun r => C19_fixpnt_value op a b core r,
   fun k => (runT_thrown_iff _ core k).trans (C19_fixpnt_throws op a b k hop)⟩

theorem C19_fixpnt_prologues_agree (op : Op) (a b : Nat) :
    (Fixpnt.prologue op a b).throws = none →
      (Fixpnt.prologue op a b).qEarly = (Fixpnt.prologue op a b).tEarly ∧ (Fixpnt.prologue op a b).qTrap = false := by
  unfold Fixpnt.prologue
  cases op <;> simp only [] <;> cases (b == 0) <;> simp

theorem C19_fixpnt_spec_accepts (op : Op) (a b core : Nat) (hop : op ≠ .rem) :
    specHolds (FixedSpec.err op a b) (FixedSpec.kindApplies .fixpnt_divide_by_zero op a b) true
      ((runQ (Fixpnt.prologue op a b) core).obs toHex) ((runT (Fixpnt.prologue op a b) core).obs toHex)
      (Fixpnt.prologue op a b).qStderr = true := by
  apply specHolds_of_model toHex _ core _ _ true .fixpnt_divide_by_zero (C19_fixpnt_prologues_agree op a b)
    (fun k => C19_fixpnt_throws op a b k hop)
  · intro h; simp [FixedSpec.kindApplies, h]
  · intro _
    rw [C19_fixpnt_quiet_signal]
    cases h : FixedSpec.err op a b
    · cases ht : (Fixpnt.prologue op a b).throws with
      | none => rfl
      | some k => have := (C19_fixpnt_throws op a b k hop).1 ht; rw [h] at this; exact absurd this.1 (by simp)
    · rw [(C19_fixpnt_throws op a b .fixpnt_divide_by_zero hop).2 ⟨h, rfl⟩]; rfl

example : runT (Fixpnt.prologue .div 0x35 0) 7 = .thrown .fixpnt_divide_by_zero ∧ runQ (Fixpnt.prologue .div 0x35 0) 7 = .val 7 := by decide

/-! ### integer — division and remainder by zero -/

/-- value clause; `n`, `w`: nbits and block width. (Vacuous on the operands where the quiet build traps: there the
    throwing build throws.) -/
theorem C19_integer_value (n w : Nat) (op : Op) (a b core r : Nat) :
    runT (Integer.prologue n w op a b) core = .val r → runQ (Integer.prologue n w op a b) core = .val r := by
  apply run_value_agree
  unfold Integer.prologue
  cases op <;> simp only [] <;> cases (b == 0) <;> simp

theorem C19_integer_throws (n w : Nat) (op : Op) (a b : Nat) (k : ExcKind) :
    (Integer.prologue n w op a b).throws = some k ↔ (FixedSpec.err op a b = true ∧ k = .integer_divide_by_zero) := by
  unfold Integer.prologue FixedSpec.err
  by_cases hb : b = 0
  · subst hb
    cases op <;> simp <;> exact eq_comm
  · have hb' : (b == 0) = false := by simpa using hb
    cases op <;> simp [hb']

theorem C19_integer_quiet_signal (n w : Nat) (op : Op) (a b : Nat) :
    (Integer.prologue n w op a b).qStderr = ((Integer.prologue n w op a b).throws).isSome := by
  unfold Integer.prologue
  cases op <;> simp only [] <;> cases (b == 0) <;> simp

/-- the quiet build survives every operation except `/` and `%` by zero on an exact-fit single-block integer
    (`integer<8,uint8_t>`, `<16,uint16_t>`, …), where it runs into the native division: SIGFPE. -/
theorem C19_integer_quiet_trap_iff (n w : Nat) (op : Op) (a b core : Nat) :
    runQ (Integer.prologue n w op a b) core = .trap ↔ (FixedSpec.err op a b = true ∧ n = w) := by
  unfold runQ Integer.prologue FixedSpec.err
  cases op <;> simp only [] <;> cases hb : (b == 0) <;> simp

theorem C19_integer (n w : Nat) (op : Op) (a b core : Nat) :
    (∀ r, runT (Integer.prologue n w op a b) core = .val r → runQ (Integer.prologue n w op a b) core = .val r) ∧
    (∀ k, runT (Integer.prologue n w op a b) core = .thrown k ↔ (FixedSpec.err op a b = true ∧ k = .integer_divide_by_zero)) :=
  ⟨fun r => C19_integer_value n w op a b core r,
   fun k => (runT_thrown_iff _ core k).trans (C19_integer_throws n w op a b k)⟩

theorem C19_integer_prologues_agree (n w : Nat) (op : Op) (a b : Nat) :
    (Integer.prologue n w op a b).throws = none →
      (Integer.prologue n w op a b).qEarly = (Integer.prologue n w op a b).tEarly ∧ (Integer.prologue n w op a b).qTrap = false := by
  unfold Integer.prologue
  cases op <;> simp only [] <;> cases (b == 0) <;> simp

theorem C19_integer_spec_accepts (n w : Nat) (op : Op) (a b core : Nat) :
    specHolds (FixedSpec.err op a b) (FixedSpec.kindApplies .integer_divide_by_zero op a b) true
      ((runQ (Integer.prologue n w op a b) core).obs toHex) ((runT (Integer.prologue n w op a b) core).obs toHex)
      (Integer.prologue n w op a b).qStderr = true := by
  apply specHolds_of_model toHex _ core _ _ true .integer_divide_by_zero (C19_integer_prologues_agree n w op a b)
    (fun k => C19_integer_throws n w op a b k)
  · intro h; simp [FixedSpec.kindApplies, h]
  · intro _
    rw [C19_integer_quiet_signal]
    cases h : FixedSpec.err op a b
    · cases ht : (Integer.prologue n w op a b).throws with
      | none => rfl
      | some k => have := (C19_integer_throws n w op a b k).1 ht; rw [h] at this; exact absurd this.1 (by simp)
    · rw [(C19_integer_throws n w op a b .integer_divide_by_zero).2 ⟨h, rfl⟩]; rfl

example : runT (Integer.prologue 12 8 .rem 0x7ff 0) 1 = .thrown .integer_divide_by_zero ∧ runQ (Integer.prologue 12 8 .rem 0x7ff 0) 1 = .val 1 := by decide
example : runQ (Integer.prologue 8 8 .div 5 0) 0 = .trap := by decide

/-! ### lns — division by zero -/

theorem C19_lns_value (n : Nat) (op : Op) (a b core r : Nat) :
    runT (Lns.prologue n op a b) core = .val r → runQ (Lns.prologue n op a b) core = .val r := by
  apply run_value_agree
  unfold Lns.prologue
  cases op <;> simp only [] <;> cases Lns.isNaN n a <;> cases Lns.isNaN n b <;> cases Lns.isZero n b <;> simp

/-- throw clause, every width, operator and operand pair (code after the fix "lns operator/= must test for a zero divisor
    before the NaN operands"): the throwing build throws `lns_divide_by_zero` exactly for a zero divisor — NaN / 0 included. -/
theorem C19_lns_throws (n : Nat) (op : Op) (a b : Nat) (k : ExcKind) :
    (Lns.prologue n op a b).throws = some k ↔ (LnsSpec.err n op a b = true ∧ k = .lns_divide_by_zero) := by
  have e1 : Lns.isNaN n a = LnsSpec.isNaN n a := rfl
  have e2 : Lns.isNaN n b = LnsSpec.isNaN n b := rfl
  have e3 : Lns.isZero n b = LnsSpec.isZero n b := rfl
  unfold Lns.prologue LnsSpec.err
  rw [e1, e2, e3]
  generalize LnsSpec.isNaN n a = na at *
  generalize LnsSpec.isNaN n b = nb at *
  generalize LnsSpec.isZero n b = zb at *
  cases op <;> simp only [] <;> cases na <;> cases nb <;> cases zb <;> simp <;> exact eq_comm

/-- the former witness class: NaN / 0 throws `lns_divide_by_zero` in the throwing build and is NaN in the quiet build, for
    every width (`exc lns 8 3 u8 div c0 40` is n = 8). -/
theorem C19_lns_nan_by_zero_throws (n : Nat) (core : Nat) :
    runT (Lns.prologue n .div (Lns.nan n) (2 ^ (n - 2))) core = .thrown .lns_divide_by_zero ∧
    runQ (Lns.prologue n .div (Lns.nan n) (2 ^ (n - 2))) core = .val (Lns.nan n) := by
  simp [runT, runQ, Lns.prologue, Lns.isZero]

theorem C19_lns (n : Nat) (op : Op) (a b core : Nat) :
    (∀ r, runT (Lns.prologue n op a b) core = .val r → runQ (Lns.prologue n op a b) core = .val r) ∧
    (∀ k, runT (Lns.prologue n op a b) core = .thrown k ↔ (LnsSpec.err n op a b = true ∧ k = .lns_divide_by_zero)) :=
  ⟨fun r => C19_lns_value n op a b core r,
   fun k => (runT_thrown_iff _ core k).trans (C19_lns_throws n op a b k)⟩

theorem C19_lns_prologues_agree (n : Nat) (op : Op) (a b : Nat) :
    (Lns.prologue n op a b).throws = none →
      (Lns.prologue n op a b).qEarly = (Lns.prologue n op a b).tEarly ∧ (Lns.prologue n op a b).qTrap = false := by
  unfold Lns.prologue
  cases op <;> simp only [] <;> cases Lns.isNaN n a <;> cases Lns.isNaN n b <;> cases Lns.isZero n b <;> simp

/-- lns: the spec predicate accepts the outcome pair of the two builds for every width, operator, operand pair. -/
theorem C19_lns_spec_accepts (n : Nat) (op : Op) (a b core : Nat) :
    specHolds (LnsSpec.err n op a b) (LnsSpec.kindApplies n op a b) false
      ((runQ (Lns.prologue n op a b) core).obs toHex) ((runT (Lns.prologue n op a b) core).obs toHex)
      (Lns.prologue n op a b).qStderr = true := by
  apply specHolds_of_model toHex _ core _ _ false .lns_divide_by_zero (C19_lns_prologues_agree n op a b)
    (fun k => C19_lns_throws n op a b k)
  · intro h; simp [LnsSpec.kindApplies, h]
  · simp

example : runT (Lns.prologue 16 .div 0x0100 0x4000) 0 = .thrown .lns_divide_by_zero ∧ runQ (Lns.prologue 16 .div 0x0100 0x4000) 0 = .val 0xc000 := by decide
example : runT (Lns.prologue 8 .div 0xc0 0x40) 0 = .thrown .lns_divide_by_zero ∧ runQ (Lns.prologue 8 .div 0xc0 0x40) 0 = .val 0xc0 := by decide

/-! ### elastic types — division by zero -/

theorem C19_elastic_value (op : Op) (a b : Int) (core r : String) :
    (runT (Elastic.eintPrologue op a b) core = .val r → runQ (Elastic.eintPrologue op a b) core = .val r) ∧
    (runT (Elastic.edecPrologue op a b) core = .val r → runQ (Elastic.edecPrologue op a b) core = .val r) ∧
    (runT (Elastic.eratPrologue op a b) core = .val r → runQ (Elastic.eratPrologue op a b) core = .val r) := by
  refine ⟨?_, ?_, ?_⟩ <;> apply run_value_agree
  · unfold Elastic.eintPrologue
    cases op <;> simp only [] <;> cases (b == 0) <;> simp
  · unfold Elastic.edecPrologue
    cases op <;> simp only [] <;> cases (b == 0) <;> simp
  · unfold Elastic.eratPrologue
    cases op <;> simp only [] <;> cases (b == 0) <;> simp

theorem C19_elastic_throws (op : Op) (a b : Int) (k : ExcKind) :
    ((Elastic.eintPrologue op a b).throws = some k ↔ (ElasticSpec.err op a b = true ∧ k = .einteger_divide_by_zero)) ∧
    ((Elastic.edecPrologue op a b).throws = some k ↔ (ElasticSpec.err op a b = true ∧ k = .edecimal_integer_divide_by_zero)) ∧
    (op ≠ .rem → ((Elastic.eratPrologue op a b).throws = some k ↔ (ElasticSpec.err op a b = true ∧ k = .erational_divide_by_zero))) := by
  refine ⟨?_, ?_, ?_⟩
  · unfold Elastic.eintPrologue ElasticSpec.err
    by_cases hb : b = 0
    · subst hb
      cases op <;> simp <;> exact eq_comm
    · have hb' : (b == 0) = false := by simpa using hb
      cases op <;> simp [hb']
  · unfold Elastic.edecPrologue ElasticSpec.err
    by_cases hb : b = 0
    · subst hb
      cases op <;> simp <;> exact eq_comm
    · have hb' : (b == 0) = false := by simpa using hb
      cases op <;> simp [hb']
  · intro hop
    unfold Elastic.eratPrologue ElasticSpec.err
    by_cases hb : b = 0
    · subst hb
      cases op <;> simp at hop ⊢ <;> exact eq_comm
    · have hb' : (b == 0) = false := by simpa using hb
      cases op <;> simp [hb']

/-- einteger, edecimal and erational (code after fix 0df1c14): the quiet build's message on std::cerr appears for exactly
    the operands the throwing build throws for. -/
theorem C19_elastic_quiet_signal (op : Op) (a b : Int) :
    (Elastic.eintPrologue op a b).qStderr = ((Elastic.eintPrologue op a b).throws).isSome ∧
    (Elastic.edecPrologue op a b).qStderr = ((Elastic.edecPrologue op a b).throws).isSome ∧
    (Elastic.eratPrologue op a b).qStderr = ((Elastic.eratPrologue op a b).throws).isSome := by
  refine ⟨?_, ?_, ?_⟩
  · unfold Elastic.eintPrologue
    cases op <;> simp only [] <;> cases (b == 0) <;> simp
  · unfold Elastic.edecPrologue
    cases op <;> simp only [] <;> cases (b == 0) <;> simp
  · unfold Elastic.eratPrologue
    cases op <;> simp only [] <;> cases (b == 0) <;> simp

/-- C19 for the elastic types, in terms of the two builds (erational: `+ - * /`), including the quiet-mode signal: for all
    three types the message on std::cerr is written exactly when the throwing build throws. -/
theorem C19_elastic (op : Op) (a b : Int) (core : String) :
    (∀ r, runT (Elastic.eintPrologue op a b) core = .val r → runQ (Elastic.eintPrologue op a b) core = .val r) ∧
    (∀ k, runT (Elastic.eintPrologue op a b) core = .thrown k ↔ (ElasticSpec.err op a b = true ∧ k = .einteger_divide_by_zero)) ∧
    (∀ r, runT (Elastic.edecPrologue op a b) core = .val r → runQ (Elastic.edecPrologue op a b) core = .val r) ∧
    (∀ k, runT (Elastic.edecPrologue op a b) core = .thrown k ↔ (ElasticSpec.err op a b = true ∧ k = .edecimal_integer_divide_by_zero)) ∧
    (∀ r, runT (Elastic.eratPrologue op a b) core = .val r → runQ (Elastic.eratPrologue op a b) core = .val r) ∧
    (op ≠ .rem → ∀ k, runT (Elastic.eratPrologue op a b) core = .thrown k ↔ (ElasticSpec.err op a b = true ∧ k = .erational_divide_by_zero)) ∧
    ((Elastic.eintPrologue op a b).qStderr = ((Elastic.eintPrologue op a b).throws).isSome ∧
     (Elastic.edecPrologue op a b).qStderr = ((Elastic.edecPrologue op a b).throws).isSome ∧
     (Elastic.eratPrologue op a b).qStderr = ((Elastic.eratPrologue op a b).throws).isSome) :=
  ⟨fun r => (C19_elastic_value op a b core r).1,
   fun k => (runT_thrown_iff _ core k).trans (C19_elastic_throws op a b k).1,
   fun r => (C19_elastic_value op a b core r).2.1,
   fun k => (runT_thrown_iff _ core k).trans (C19_elastic_throws op a b k).2.1,
   fun r => (C19_elastic_value op a b core r).2.2,
   fun hop k => (runT_thrown_iff _ core k).trans ((C19_elastic_throws op a b k).2.2 hop),
   C19_elastic_quiet_signal op a b⟩

example : (Elastic.eratPrologue .add 1 1).qStderr = false ∧ (Elastic.eratPrologue .div 1 0).qStderr = true ∧
    runT (Elastic.eratPrologue .div 1 0) "x" = .thrown .erational_divide_by_zero := by decide
example : runT (Elastic.eintPrologue .div 42 0) "x" = .thrown .einteger_divide_by_zero ∧ runQ (Elastic.eintPrologue .div 42 0) "x" = .val "0" := by decide
