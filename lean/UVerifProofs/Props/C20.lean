/-
  C20 — totality and cleanliness, the part a theorem can carry: the index and shift-count side conditions of the
  modelled posit algorithms hold for every configuration and every operand.  (Every model function is a total Lean
  function without fuel; what the C++ additionally needs is that each computed std::bitset index is below the
  bitset's size and each shift count is non-negative — stated and proved here.)
-/
import UVerif.Model.Posit
import UVerif.Model.Quire
import UVerifProofs.Props.C05
import Mathlib.Tactic.Ring
import Mathlib.Tactic.Linarith

open UVerif UVerif.Posit

/-- the regime run length `convert_` computes from an in-range scale -/
def runOf (es : Nat) (scale : Int) : Nat :=
  if scale ≥ 0 then (1 + scale.fdiv (2 ^ es : Nat)).toNat else (-(scale.fdiv (2 ^ es : Nat))).toNat

/-- For every configuration and every scale that passes `check_inward_projection_range`, the regime run is at most
    nbits−1, hence (with pt_len = nbits+3+es and len = 1 + max(nbits+1, 2+run+es)) every index used in `convert_`
    — `pt_bits.test(len−nbits)`, `test(len−nbits−1)`, `anyAfter(len−nbits−2)`, the regime bits `1..run`, the
    shift `pt_len − len` — lies inside the bitset. -/
theorem C20_convert_indices_safe (n es : Nat) (scale : Int) (hn : 2 ≤ n)
    (hin : inwardProjection n es scale = false) :
    let run := runOf es scale
    let ptLen := n + 3 + es
    let len := 1 + max (n + 1) (2 + run + es)
    run ≤ n - 1 ∧ len ≤ ptLen ∧ n + 1 ≤ len ∧ len - n < ptLen ∧ run + 1 + es + (n + 1 - (2 + run + es)) + 1 ≤ ptLen := by
  unfold inwardProjection at hin
  simp only at hin
  have hP : (0 : Int) < ((2 ^ es : Nat) : Int) := by exact_mod_cast Nat.two_pow_pos es
  generalize hPd : ((2 ^ es : Nat) : Int) = P at *
  have hrun : runOf es scale ≤ n - 1 := by
    unfold runOf
    rw [hPd]
    split
    · rename_i h0
      simp only [show ¬ scale < 0 by omega, if_false, decide_eq_false_iff_not, not_lt] at hin
      -- scale ≤ (n-2)·P  ⇒  scale fdiv P ≤ n-2
      have hq : scale.fdiv P ≤ (n : Int) - 2 := by
        rw [Int.fdiv_eq_ediv_of_nonneg _ (le_of_lt hP)]
        have : scale / P ≤ ((n : Int) - 2) * P / P := Int.ediv_le_ediv hP hin
        rwa [Int.mul_ediv_cancel _ (ne_of_gt hP)] at this
      omega
    · rename_i h0
      have hneg : scale < 0 := by omega
      simp only [hneg, if_true, decide_eq_false_iff_not, not_lt] at hin
      -- -(n-2)·P ≤ scale  ⇒  -(n-2) ≤ scale fdiv P
      have hq : -((n : Int) - 2) ≤ scale.fdiv P := by
        rw [Int.fdiv_eq_ediv_of_nonneg _ (le_of_lt hP)]
        have : (-((n : Int) - 2)) * P / P ≤ scale / P := Int.ediv_le_ediv hP (by linarith)
        rwa [Int.mul_ediv_cancel _ (ne_of_gt hP)] at this
      omega
  simp only
  generalize runOf es scale = run at *
  refine ⟨hrun, ?_, ?_, ?_, ?_⟩ <;> omega

/-- `nshift<abits>` never asks for a position at or above the adder width: the hidden bit lands at
    fbits + shift with shift ≤ 3 and abits = fbits + 4 (so the C++ range check can never fire). -/
theorem C20_nshift_in_range (fb frac : Nat) (shift : Int) (hf : frac < 2 ^ fb) (hs : shift ≤ 3) :
    nshift fb frac shift < 2 ^ (fb + 4) := by
  unfold nshift
  have hx : 2 ^ fb + frac < 2 ^ (fb + 1) := by rw [Nat.pow_succ]; omega
  split
  · rename_i h
    rw [Nat.shiftLeft_eq]
    have hk : shift.toNat ≤ 3 := by omega
    calc (2 ^ fb + frac) * 2 ^ shift.toNat < 2 ^ (fb + 1) * 2 ^ shift.toNat :=
          Nat.mul_lt_mul_of_pos_right hx (Nat.two_pow_pos _)
      _ = 2 ^ (fb + 1 + shift.toNat) := by rw [← Nat.pow_add]
      _ ≤ 2 ^ (fb + 4) := Nat.pow_le_pow_right (by decide) (by omega)
  · unfold stickyShr
    have h1 : (2 ^ fb + frac) >>> (-shift).toNat ≤ 2 ^ fb + frac := by
      rw [Nat.shiftRight_eq_div_pow]; exact Nat.div_le_self _ _
    have h2 : (2 ^ fb + frac) >>> (-shift).toNat ||| (if (2 ^ fb + frac) % 2 ^ (-shift).toNat ≠ 0 then 1 else 0)
        < 2 ^ (fb + 1) := by
      apply Nat.or_lt_two_pow
      · omega
      · split
        · exact Nat.one_lt_two_pow (by omega)
        · exact Nat.two_pow_pos _
    have : 2 ^ (fb + 1) ≤ 2 ^ (fb + 4) := Nat.pow_le_pow_right (by decide) (by omega)
    exact Nat.lt_of_lt_of_le h2 this

/-- results of the posit model never have a bit at or above nbits (canonical encodings), for every operator that
    ends in the modular steps of `convert_`/`twosComp`/`incr`/`decr` -/
theorem C20_canonical_neg_abs_step (n a : Nat) :
    neg n a < 2 ^ n ∧ incr n a < 2 ^ n ∧ decr n a < 2 ^ n := by
  have hp : 0 < 2 ^ n := Nat.two_pow_pos _
  refine ⟨?_, Nat.mod_lt _ hp, Nat.mod_lt _ hp⟩
  unfold neg twosComp; exact Nat.mod_lt _ hp

/-- every bit position the quire's add/subtract loops touch lies inside lower‖upper: the aligned operand is below
    2^(half_range + upper_range) whenever the quire accepts the operand (restated from C05 for the safety clause) -/
theorem C20_quire_positions_safe (L : Quire.Layout) (fb frac : Nat) (scale : Int) (hf : frac < 2 ^ fb)
    (hs : scale ≤ (L.hr : Int)) : Quire.aligned L fb frac scale < 2 ^ (L.hr + L.ur) :=
  C05_aligned_in_range L fb frac scale hf hs

/-- non-vacuity: posit<16,2> at its largest in-range scale 56 -/
example : inwardProjection 16 2 56 = false ∧ runOf 2 56 = 15 := by decide
