#!/usr/bin/env python3
"""merge_update.py <name> <prop,…> <file>… — copy the listed files of a worker's follow-up over /verif and adopt the worker's
known_findings.json entries for its properties (status changes included)."""
import json, shutil, sys, os
name, props, files = sys.argv[1], sys.argv[2].split(","), sys.argv[3:]
A = f"/var/tmp/agents/{name}/verif"
for f in files:
    if f == "known_findings.json": continue
    os.makedirs(os.path.dirname(os.path.join("/verif", f)) or "/verif", exist_ok=True)
    shutil.copy2(os.path.join(A, f), os.path.join("/verif", f)); print("copied", f)
mine = json.load(open("/verif/known_findings.json")); theirs = json.load(open(A + "/known_findings.json"))
t = {(f["property"], f["class"]): f for f in theirs["findings"] if f["property"] in props}
out, seen = [], set()
for f in mine["findings"]:
    k = (f["property"], f["class"])
    if f["property"] in props and k in t:
        if t[k] != f: print("updated", k, f.get("status"), "->", t[k].get("status"))
        out.append(t[k]); seen.add(k)
    elif f["property"] in props and k not in t and f.get("site", "").startswith("include") and name != "main" and "--keep" not in sys.argv:
        out.append(f)   # not owned by this worker (other family's class for the same property): keep
    else:
        out.append(f)
for k, f in t.items():
    if k not in seen and k not in {(x["property"], x["class"]) for x in mine["findings"]}:
        out.append(f); print("added", k)
mine["findings"] = out
json.dump(mine, open("/verif/known_findings.json", "w"), indent=1)
