#!/usr/bin/env python3
"""merge_worker.py <name> <owned props comma list> [--families f1,f2]  — copy a worker's deliverables from
/var/tmp/agents/<name>/verif into /verif: new files are copied, registries (All.lean, UVerif.lean, UVerifProofs.lean,
known_findings.json) get the worker's additional lines, and the worker's monolithic props.py becomes props_d/<name>.py
(filtered to the harness entries and properties it owns)."""
import json, os, re, shutil, sys, filecmp
name = sys.argv[1]; owned = sys.argv[2].split(",")
A = f"/var/tmp/agents/{name}/verif"; V = "/verif"
SHARED = {"lean/UVerif/Driver/All.lean", "lean/UVerif.lean", "lean/UVerifProofs.lean", "known_findings.json", "props.py", "MANIFEST.json",
          "lean/Main.lean", "check.py", "gen_manifest.py", "AGENT_GUIDE.md", "DESIGN.md", "lean/lakefile.toml", "lean/lake-manifest.json"}
copied, differ = [], []
for root, dirs, files in os.walk(A):
    dirs[:] = [d for d in dirs if d not in (".git", ".lake", "build", "replays", "evidence", "__pycache__", "Generated", "seeded")]
    for f in files:
        rel = os.path.relpath(os.path.join(root, f), A)
        if rel in SHARED or rel.endswith(".pyc"): continue
        src, dst = os.path.join(A, rel), os.path.join(V, rel)
        if not os.path.exists(dst):
            os.makedirs(os.path.dirname(dst), exist_ok=True); shutil.copy2(src, dst); copied.append(rel)
        elif not filecmp.cmp(src, dst, shallow=False):
            differ.append(rel)
print("copied:", *copied, sep="\n  ")
print("EXISTING FILES THAT DIFFER (not copied):", *differ, sep="\n  ")
# registries
def merge_imports(rel):
    t = open(os.path.join(A, rel)).read().splitlines(); m = open(os.path.join(V, rel)).read()
    add = [l for l in t if l.startswith("import ") and l not in m.splitlines()]
    # only add imports whose file exists in /verif now
    ok = []
    for l in add:
        mod = l.split()[1]; path = os.path.join(V, "lean", *mod.split(".")) + ".lean"
        if os.path.exists(path): ok.append(l)
    if ok:
        open(os.path.join(V, rel), "w").write(m.rstrip("\n") + "\n" + "\n".join(ok) + "\n")
    print(rel, "+", ok)
merge_imports("lean/UVerif.lean"); merge_imports("lean/UVerifProofs.lean")
t = open(os.path.join(A, "lean/UVerif/Driver/All.lean")).read(); m = open(os.path.join(V, "lean/UVerif/Driver/All.lean")).read()
imps = [l for l in t.splitlines() if l.startswith("import ") and l not in m]
regs = [l for l in t.splitlines() if re.match(r'\s*\| "', l) and l not in m]
if imps or regs:
    m = m.replace("\nnamespace UVerif.Driver", "\n".join([""] + imps) + "\n\nnamespace UVerif.Driver", 1) if imps else m
    m = m.replace("  | _ => none", "\n".join(regs) + "\n  | _ => none", 1)
    m = re.sub(r"\n\n\n+namespace", "\n\nnamespace", m)
    open(os.path.join(V, "lean/UVerif/Driver/All.lean"), "w").write(m)
print("All.lean +", imps, regs)
k = json.load(open(os.path.join(V, "known_findings.json"))); t = json.load(open(os.path.join(A, "known_findings.json")))
have = {(f["property"], f["class"]) for f in k["findings"]}
n = 0
for f in t["findings"]:
    if (f["property"], f["class"]) not in have and f["property"] in owned:
        k["findings"].append(f); n += 1
json.dump(k, open(os.path.join(V, "known_findings.json"), "w"), indent=1); print("known findings +", n)
# props
pd = os.path.join(A, "props_d", name + ".py")
if os.path.exists(pd):
    shutil.copy2(pd, os.path.join(V, "props_d", name + ".py")); print("props_d copied")
else:
    src = open(os.path.join(A, "props.py")).read()
    base_h = set(re.findall(r'^    "(h_\w+)":', open(os.path.join(V, "props_d", "posit.py")).read(), flags=re.M))
    footer = f'''

# ---- filter: this module was a worker's monolithic props.py; expose only what the worker owns -------------------------
_OWNED = {owned!r}
_BASE_HARNESS = {sorted(base_h)!r}
HARNESS = {{k: v for k, v in HARNESS.items() if k not in _BASE_HARNESS}}
CONTRIB = {{k: v for k, v in PROPS.items() if k in _OWNED}}
if "replay_jobs" in globals():
    _rj = replay_jobs
    def replay_jobs(prop, path, exes):
        return _rj(prop, path, exes) if prop in _OWNED else []
'''
    open(os.path.join(V, "props_d", name + ".py"), "w").write(f'"""props_d/{name}.py — generated from worker `{name}`\'s props.py by merge_worker.py"""\n' + src + footer)
    print("props_d generated from props.py")
