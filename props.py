"""props.py — per-property configuration of check.py.

Each file props_d/<family>.py contributes
    HARNESS = {name: dict(src=..., flags=[...], ...)}                  harness translation units
    CONTRIB = {"Cxx": dict(harness=[...], streams=fn(tier, seed, exes) -> jobs, proof_modules=[...], ...)}
    (optional) replay_jobs(prop, path, exes) -> jobs
A property's check is the union of all contributions: harness TUs, streams and proof modules are concatenated; the
descriptive fields (level, level_text, level_note, explanation, …) come from the first contributor that sets them,
list-valued fields (assumptions, trusted) are concatenated.  MANIFEST.json is generated from the result (gen_manifest.py).
"""
import glob, importlib.util, os

HERE = os.path.dirname(os.path.abspath(__file__))
SAN = ["-g", "-fsanitize=address,undefined", "-fno-sanitize-recover=all"]
HOOK_COMMITS = []
NOT_YET = {}


def rotate(lst, seed, k):
    """deterministic rotating subset of size k chosen from the seed"""
    if k >= len(lst):
        return list(lst)
    start = (seed * 7) % len(lst)
    return [lst[(start + i) % len(lst)] for i in range(k)]


def corpus_jobs(prop, path, exes):
    return [dict(file=path, label="corpus:" + os.path.basename(path))]


HARNESS = {}
PROPS = {}
_REPLAY = []
_XBT_HARNESS = []
_C20 = []   # (harness name -> sanitized harness name, stream functions) per family
_LIST_FIELDS = ("harness", "thorough_harness", "proof_modules", "assumptions", "trusted")


def _merge(prop, c):
    p = PROPS.setdefault(prop, {"_streams": []})
    for k, v in c.items():
        if k == "streams":
            p["_streams"].append(v)
        elif k in _LIST_FIELDS:
            p[k] = p.get(k, []) + [x for x in v if x not in p.get(k, [])]
        elif k not in p:
            p[k] = v


def _load():
    for f in sorted(glob.glob(os.path.join(HERE, "props_d", "*.py"))):
        spec = importlib.util.spec_from_file_location("props_d_" + os.path.basename(f)[:-3], f)
        m = importlib.util.module_from_spec(spec)
        m.rotate, m.SAN, m.HERE = rotate, SAN, HERE
        spec.loader.exec_module(m)
        HARNESS.update(getattr(m, "HARNESS", {}))
        for prop, c in getattr(m, "CONTRIB", {}).items():
            _merge(prop, c)
        if hasattr(m, "replay_jobs"):
            _REPLAY.append(m.replay_jobs)
        _XBT.extend(getattr(m, "XBT", []))
        if hasattr(m, "C20_STREAMS"):
            HARNESS.update(m.C20_HARNESS)
            _C20.append((m.C20_MAP, m.C20_STREAMS))
        for h in getattr(m, "XBT_HARNESS", []):
            _XBT_HARNESS.append(h)
    if _XBT:
        _merge("C12", dict(harness=_XBT_HARNESS, streams=xbt_streams))
    if _C20:
        _merge("C20", dict(harness=[v for mp, _ in _C20 for v in mp.values()], streams=c20_family_streams))
    for prop, p in PROPS.items():
        fns = p.pop("_streams")
        p["streams"] = (lambda fns: (lambda tier, seed, exes: [j for fn in fns for j in fn(tier, seed, exes)]))(fns)
        p.setdefault("proof_modules", [f"UVerifProofs.Props.{prop}"])


_BT = ("u8", "u16", "u32", "u64")
_XBT = []   # stream functions whose exhaustive jobs exist once per block type


def xbt_streams(tier, seed, exes):
    """C12, model-free: the SAME exhaustive stream is produced by the instantiations of a configuration for every block type;
    the transcripts must be identical once the block-type token is masked. Jobs are grouped by (harness family, arguments)."""
    import re
    groups = {}
    class _Exes(dict):           # the stream functions also build jobs for harnesses C12 does not compile: ignore those
        def __missing__(self, k):
            return "/nonexistent/" + k
    for fn in _XBT:
        for j in fn(tier, seed, _Exes(exes)):
            # exhaustive streams, and structured streams of configurations that exist for several block types (their
            # operand generators are seeded independently of the block type; results are compared per input)
            if "exh" not in j.get("args", []) and "rnd" not in j.get("args", []):
                continue
            fam = re.sub(r"_(u8|u16|u32|u64)$", "", os.path.basename(j["exe"]))
            key = (fam, tuple("BT" if a in _BT else a for a in j["args"]))
            groups.setdefault(key, []).append(j)
    jobs = []
    for (fam, args), js in sorted(groups.items()):
        if len(js) >= 2:
            jobs.append(dict(xbt=[(j["exe"], j["args"]) for j in js], env=js[0].get("env", {}), label=f"cross-block-type {fam} {' '.join(args)} x{len(js)}"))
    if tier == "quick":
        rnd = [j for j in jobs if " rnd " in j["label"]]
        jobs = rotate([j for j in jobs if " rnd " not in j["label"]], seed, 60) + rnd
    return jobs


def c20_family_streams(tier, seed, exes):
    """C20: the families' own streams, executed by ASan+UBSan builds of their harnesses (a seed-rotated subset in the quick tier)"""
    jobs = []
    for mp, fns in _C20:
        class _Exes(dict):
            def __missing__(self, k):
                return "/nonexistent/" + k
        mapped = _Exes({k: exes[v] for k, v in mp.items() if v in exes})
        fam = []
        for fn in fns:
            for j in fn(tier, seed, mapped):
                if j.get("exe", "").startswith("/nonexistent/") or "exe" not in j:
                    continue
                j = dict(j); j["label"] = "ASan+UBSan " + j["label"]
                fam.append(j)
        if tier == "quick" and len(fam) > 24:
            k = (len(fam) + 23) // 24
            fam = fam[seed % k::k]      # evenly spread, seed-rotated subset
        jobs += fam
    return jobs


def replay_jobs(prop, path, exes):
    return [j for fn in _REPLAY for j in fn(prop, path, exes)]


_load()
