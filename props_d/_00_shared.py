"""props_d/_00_shared.py — descriptive fields of the properties that several families contribute to (loaded first, so these
texts win over a single family's wording). No harness, no streams."""

_NOTE = ("trusted: Lean 4.33 kernel (axioms propext, Classical.choice, Quot.sound only), the hand-written models (tied to the "
         "compiled headers by the differential transcripts of this run, on the explored inputs only), g++ 12.2 -O1, libstdc++")

CONTRIB = {
    "C03": dict(
        level="proof",
        level_text="Lean theorems: the field extraction from native sources is exact and the rounding into the target is the target's "
                   "nearest-value relation (posit: complete, every configuration and source; cfloat: normal sources into the normal range, "
                   "special values; fixpnt: integers and IEEE sources correctly rounded then wrapped (Modulo) or clamped (Saturate) for every nbits and every value of the native types; "
                   "dd/qd: exact for double / float / every 64-bit integer / long double on the double grid; lns: nearest to the observed log2; "
                   "remaining regions stated and either proved false with witnesses or left open), plus differential "
                   "correspondence with sources generated from the target lattice (every value, every midpoint, +-1 source ulp)",
        level_note=_NOTE + "; std::frexp / fpclassify / log2 behave as specified",
        explanation="conversion from float/double/long double/8..64-bit integers into posit, cfloat, fixpnt, lns, dd/qd (integer targets: C08_from_native); "
                    "exact rational value of the source vs. the target's rounding relation",
    ),
    "C04": dict(
        level="proof",
        level_text="Lean theorems: read-back to native types is exact and round-trips (posit: complete under the decidable guard that the "
                   "native type is wide enough; cfloat to_native = value for es <= 11; areal lower bound exact for es <= 7; fixpnt exact read-back "
                   "when nbits <= the significand, integer reads = truncation toward zero; double(dd) = nearest double, integer reads of a "
                   "normalised dd / qd = the value truncated toward zero), remaining float-detour integer casts "
                   "modelled through the float detour the code takes; every encoding of small configurations read back and round-tripped",
        level_note=_NOTE + "; IEEE hardware arithmetic on exactly representable products",
        explanation="read-back of posit / cfloat / areal / fixpnt / dd / qd to float, double, long double and the integer types, and the round trip",
    ),
    "C06": dict(
        level="proof",
        level_text="Lean theorems: posit comparison = real order of the decoded values for every configuration (strict monotonicity of the "
                   "encoding), ++/-- = adjacent value, extremes; cfloat and lns order theorems on the regions where the pinned code is right, "
                   "counterexample theorems elsewhere; all ordered pairs of small configurations through the real operators",
        level_note=_NOTE,
        proof_modules=["UVerifProofs.Props.C06Lns"],
        explanation="== != < <= > >= ++ -- and numeric_limits members of posit, cfloat, lns (integer / fixpnt comparisons are judged by C08 / C07)",
    ),
    "C15": dict(
        level="proof",
        level_text="Lean theorems: posit<n1,es1> -> posit<n2,es2> is decode (exact) followed by one correct rounding, identity on representable "
                   "values, widen-then-narrow is the identity — for every pair of configurations; integer<->integer resizing is C08_convert; fixpnt size "
                   "adapter (every pair of configurations, Modulo and Saturate, after the repair of D12 and three more defects), cfloat->cfloat and lns->lns "
                   "composition theorems, posit<->integer adapters; "
                   "9x9 matrix of posit configurations with every source encoding <= 12 bits through the real constructors",
        level_note=_NOTE,
        explanation="conversions between configurations of a family (posit, cfloat, fixpnt, lns) and the posit<->integer adapters",
    ),
}
