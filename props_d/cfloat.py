"""props_d/cfloat.py — generated from worker `cfloat`'s props.py by merge_worker.py"""
"""props.py — per-property configuration of check.py: harness TUs, streams per tier, proof modules."""
import os

HARNESS = {
    "h_posit": dict(src="h_posit.cpp"),
    # family cfloat: one source, four translation units (block type of the small configurations / large configurations)
    "h_cfloat_u8": dict(src="h_cfloat.cpp", flags=["-DUV_PART=8"]),
    "h_cfloat_u16": dict(src="h_cfloat.cpp", flags=["-DUV_PART=16"]),
    "h_cfloat_u32": dict(src="h_cfloat.cpp", flags=["-DUV_PART=32"]),
    "h_cfloat_big": dict(src="h_cfloat.cpp", flags=["-DUV_PART=0"]),
}
CFLOAT_HARNESS = ["h_cfloat_u8", "h_cfloat_u16", "h_cfloat_u32", "h_cfloat_big"]

POSIT_SMALL = [(n, es) for n in range(2, 9) for es in range(0, 6) if es <= n - 2 or (n, es) in ((2, 0),)]
POSIT_SMALL = [(n, es) for (n, es) in POSIT_SMALL if (n, es) in {
    (2,0),(3,0),(3,1),(4,0),(4,1),(4,2),(5,0),(5,1),(5,2),(5,3),(6,0),(6,1),(6,2),(6,3),(6,4),
    (7,0),(7,1),(7,2),(7,3),(7,4),(7,5),(8,0),(8,1),(8,2),(8,3),(8,4),(8,5)}]
POSIT_LARGE = [(9,1),(10,2),(12,1),(16,1),(16,2),(20,1),(24,2),(32,2),(32,3),(48,2),(64,3),(64,2)]


def rotate(lst, seed, k):
    """deterministic rotating subset of size k chosen from the seed"""
    if k >= len(lst):
        return list(lst)
    start = (seed * 7) % len(lst)
    return [lst[(start + i) % len(lst)] for i in range(k)]


def posit_streams(ops, quick_exh8, quick_rnd, thorough_rnd):
    def f(tier, seed, exes):
        exe = exes["h_posit"]
        jobs = []
        small = [c for c in POSIT_SMALL if c[0] <= 7]
        eight = [c for c in POSIT_SMALL if c[0] == 8]
        if tier == "quick":
            cfgs = small + rotate(eight, seed, quick_exh8)
        else:
            cfgs = small + eight
        for (n, es) in cfgs:
            jobs.append(dict(exe=exe, args=["exh", str(n), str(es), "0", ops], label=f"posit<{n},{es}> exhaustive {ops}"))
        cnt = quick_rnd if tier == "quick" else thorough_rnd
        for (n, es) in POSIT_LARGE:
            # split large sample counts into shards with distinct seeds so that all cores are used
            shards = 1 if tier == "quick" else 4
            for s in range(shards):
                jobs.append(dict(exe=exe, args=["rnd", str(n), str(es), str(cnt // shards), ops],
                                 env={"VERIF_SEED": str(seed * 100 + s)}, label=f"posit<{n},{es}> structured {ops} shard {s}"))
        # longest jobs first
        jobs.sort(key=lambda j: 0 if "exhaustive" in j["label"] and "<8," in j["label"] else 1)
        return jobs
    return f


# ---------------------------------------------------------------------------------------------- family cfloat
CF_SMALL = [(4, 1), (4, 2), (5, 2), (5, 3), (6, 1), (6, 2), (6, 3), (7, 4), (8, 2), (8, 3), (8, 4), (8, 5)]
CF_BT = ["u8", "u16", "u32"]
# (nbits, es, bt, flags) instantiated in the large-configuration TU: half, bfloat_t, single, duble, cfloat<24,5>, <40,8>, …
CF_LARGE = [(16, 5, "u16", "100"), (16, 8, "u16", "100"), (32, 8, "u32", "100"), (64, 11, "u32", "100"),
            (24, 5, "u8", "110"), (24, 5, "u32", "001"), (24, 5, "u16", "100"), (40, 8, "u8", "111"), (40, 8, "u32", "100"),
            (40, 8, "u16", "010"), (16, 5, "u8", "011"), (16, 5, "u32", "110"), (12, 4, "u16", "101"), (32, 8, "u8", "000"),
            (32, 8, "u8", "100"), (26, 6, "u8", "110"), (64, 11, "u16", "100"), (48, 8, "u16", "100"),
            # the same configuration on several block types (1, 2, 3, 4, 5 limbs): also compared across block types by C12
            (40, 8, "u8", "100"), (40, 8, "u16", "100"), (33, 8, "u8", "100"), (33, 8, "u16", "100"), (33, 8, "u32", "100"), (32, 8, "u16", "100")]   # 4-limb and 3-limb storage with subnormals

# long double lines only (mode `ld` of the large-configuration TU): es > 11 leaves binary64's exponent range, 80-bit
# configurations have fbits >= 63 (block path of convert_ieee754<long double>, 1 + f rounds in to_native<long double>)
CF_LD = [(80, 15, "u16", "100"), (80, 15, "u32", "111"), (80, 15, "u8", "010"), (64, 15, "u32", "100"), (48, 12, "u16", "110"), (80, 11, "u8", "100")]


def cf_flags(es):
    # es = 1 requires subnormals and supernormals (static_assert in cfloat)
    return ["110", "111"] if es == 1 else ["000", "001", "010", "011", "100", "101", "110", "111"]


def cfloat_streams(ops, quick_pairs, thorough_pairs, quick_exh8=None, all_bt_quick=False, shards=4, ld=None):
    """exhaustive <= 8 bits over flags x (nbits,es) x block types; structured pairs for the large configurations.
    quick tier: one block type per (nbits,es,flags) rotating with the seed (all three when all_bt_quick), and a
    seed-rotated subset of quick_exh8 of the 8-bit (nbits,es,flags) combinations when quick_exh8 is given.
    ld = (quick, thorough) encodings per CF_LD configuration: the long-double-only streams (C03 fromld, C04 told / rtld);
    every other configuration carries its long double lines inside the tonat / fromnat opsets."""
    def f(tier, seed, exes):
        jobs = []
        combos = [(n, es, fl) for (n, es) in CF_SMALL for fl in cf_flags(es)]
        small = [c for c in combos if c[0] < 8]
        eight = [c for c in combos if c[0] == 8]
        if tier == "quick" and quick_exh8 is not None:
            eight = rotate(eight, seed, quick_exh8)
        for i, (n, es, fl) in enumerate(small + eight):
            bts = CF_BT if (tier != "quick" or all_bt_quick) else [CF_BT[(seed + i) % 3]]
            for bt in bts:
                jobs.append(dict(exe=exes["h_cfloat_" + bt], args=["exh", str(n), str(es), bt, fl, "0", ops],
                                 label=f"cfloat<{n},{es},{bt},{fl}> exhaustive {ops}", weight=(1 << (2 * n))))
        cnt = quick_pairs if tier == "quick" else thorough_pairs
        for (n, es, bt, fl) in CF_LARGE:
            k = cnt // 2 if n >= 64 else cnt          # duble: rationals with 2^1000-size terms are slow in the driver
            nsh = 1 if tier == "quick" else shards
            for sh in range(nsh):
                jobs.append(dict(exe=exes["h_cfloat_big"], args=["rnd", str(n), str(es), bt, fl, str(max(1, k // nsh)), ops],
                                 env={"VERIF_SEED": str(seed * 100 + sh)},
                                 label=f"cfloat<{n},{es},{bt},{fl}> structured {ops} shard {sh}", weight=k * 30 // nsh))
        if ld is not None:
            cnt = ld[0] if tier == "quick" else ld[1]
            nsh = 1 if tier == "quick" else shards
            for (n, es, bt, fl) in CF_LD:
                for sh in range(nsh):
                    jobs.append(dict(exe=exes["h_cfloat_big"], args=["ld", str(n), str(es), bt, fl, str(max(1, cnt // nsh)), ops],
                                     env={"VERIF_SEED": str(seed * 100 + sh)},
                                     label=f"cfloat<{n},{es},{bt},{fl}> long double {ops} shard {sh}", weight=cnt * 3000 // nsh))
        jobs.sort(key=lambda j: -j.get("weight", 0))
        return jobs
    return f


CFLOAT_TRUSTED = ["gen/extract_tables.py (regex translator for native/subnormal.hpp tables and ieee754_parameter constants)",
                  "IEEE-754 binary32/binary64 hardware arithmetic of this machine (single/duble lines carry the hardware result)",
                  "x87 80-bit long double of this machine and g++'s long double arithmetic in the harness (ldexp, nextafter, memcpy of the 10 "
                  "value bytes): long double sources are built from the target's fields, results are printed as sign|15|63 bit patterns"]


def corpus_jobs(prop, path, exes):
    return [dict(file=path, label="corpus:" + os.path.basename(path))]


HOOK_COMMITS = []
NOT_YET = {}

PROPS = {
    "C01": dict(
        harness=["h_posit"],
        streams=posit_streams("arith", 2, 20000, 400000),
        level="proof",
        level_text="Lean theorems about the executable model of decode/module_add/sub/mul/div/convert_ and the Posit-Standard rounding "
                   "relation; the compiled headers are tied to the model by exhaustive (<=8 bit) and structured differential transcripts, "
                   "and every implementation output is judged by the executable rounding relation",
        level_note="trusted: Lean kernel, hand-written model (tied by correspondence only on explored inputs), g++ 12.2; "
                   "theorems proved so far are listed in the evidence file, unproved obligations are stated in DESIGN.md",
        explanation="posit + - * / reciprocal negate abs: Lean model of decode/module_*/convert_ vs. the Posit-Standard "
                    "rounding relation; correspondence by exhaustive enumeration of small configurations and structured sampling of large ones",
        assumptions=["the compiled code behaves like the model on inputs that were not explored"],
    ),
    "C02": dict(
        harness=CFLOAT_HARNESS,
        streams=cfloat_streams("arith", 8000, 120000, quick_exh8=12),
        level="proof",
        level_text="Lean theorems about the executable model of cfloat operator+= -= *= /= (special-value prologues, normalize*, "
                   "blocktriple add/mul/div, convert incl. its non-rounding >64-bit branch) and the IEEE-style rounding relation "
                   "IeeeNearest (RNE on the configuration's lattice, flush/subnormal, inf/saturate); the special-value table is proved "
                   "for all configurations; C02_arith_partial proves the model's + - * / correct for ALL operand pairs (subnormal operands, "
                   "every result range, both convert branches, es = 1) under one decidable input condition, arithClass = \"\", which is the "
                   "function the driver classifies lines with: the gap to the full statements (kept as Prop definitions, refuted by "
                   "counterexample theorems) is exactly the recorded classes D4, D5 and sat+sup maxpos (other hypotheses: validity, es<=20 -- a static_assert of the class --, block type of >= 1 bit, canonical encodings); the compiled headers are tied to the model by exhaustive (<=8 bit, all flag combinations, three block "
                   "types) and structured transcripts, every output judged by the executable relation and, for single/duble, by hardware",
        level_note="trusted: Lean kernel, hand-written model (tied by correspondence only on explored inputs), table translator, g++ 12.2, "
                   "hardware float/double; known defects D4/D5 and the saturating+supernormal maxpos encoding are reported as KNOWN-FINDING "
                   "classes and have counterexample theorems",
        explanation="cfloat + - * /: model vs. IeeeNearest; exhaustive small configurations x 8 flag combinations x u8/u16/u32, structured "
                    "pairs (ties, subnormal results, carries, overflow cusp, sub/supernormal operands) on half/bfloat/single/duble/<24,5>/<40,8>",
        assumptions=["the compiled code behaves like the model on inputs that were not explored",
                     "the infinity encoding denotes infinity in every configuration (isinf, numeric_limits::infinity), also in saturating ones"],
        trusted=CFLOAT_TRUSTED,
    ),
    "C03": dict(
        harness=CFLOAT_HARNESS,
        streams=cfloat_streams("fromnat", 4000, 40000, all_bt_quick=True, ld=(300, 4000)),
        proof_modules=["UVerifProofs.Props.C03Cfloat"],
        level="proof",
        level_text="(cfloat clauses) Lean model of convert_ieee754 (field extraction, guard/round/sticky, subnormal target, overflow, "
                   "post-processing) for float, double AND long double sources (x86-64 80-bit: fromLD = the long_double_decoder fields, no "
                   "identical-layout copy, the regenerated ieee754_parameter<long double> masks incl. its hmask, the uint64_t composition, the "
                   "block path of targets wider than 64 bits) and convert_signed/unsigned_integer + round<>; every conversion result is judged "
                   "by IeeeNearest on the exact value of the source; theorems: special sources (every NaN payload, infinities, zeros; all three "
                   "source formats), normal sources into the normal range (float, double, long double); full statements as Prop defs",
        level_note="trusted: as C02; repaired in /repo and proved / checked in full since: the integer round<> carry and sticky gap, "
                   "NaN sources with an arbitrary payload (C03_cfloat_from_ieee_nan: every NaN source gives a NaN, all configurations); "
                   "integer sources inside the range are now proved correctly rounded (C03_cfloat_from_int_partial, side condition "
                   "C03_cfloat_from_int_inRange); still KNOWN-FINDING classes: no range check in the integer routines (the repair was "
                   "withdrawn: static/cfloat/math/fractional.cpp depends on the old conversion), integer 1 into es = 1 configurations, "
                   "subnormal IEEE sources, saturating+supernormal maxpos; long double sources only: targets with fbits >= 63 have no "
                   "subnormal handling; repaired in /repo and checked per line since: ties in the target's subnormal range rounded up "
                   "(ieee754_parameter<long double>::hmask had bit 0 set), the shift by 64 for values in [minpos/2, minpos) (also a C20 UBSan finding)",
        explanation="cfloat from double/float/long double/integers: sources generated from the target (each value, midpoints, 1 source ulp around -- "
                    "for long double 2^-63 relative, plus 2 and 1024 ulps off every tie (and 3072 at the overflow cusp), so that a detour through "
                    "binary64 or a dropped low significand bit changes a result), specials (17 NaN payloads x 2 signs, infinities, the limits of "
                    "binary64 and of long double), random patterns; long-double-only streams for cfloat<80,15> x3, <64,15>, <48,12>, <80,11>",
        assumptions=["the compiled code behaves like the model on inputs that were not explored"],
        trusted=CFLOAT_TRUSTED,
    ),
    "C04": dict(
        harness=CFLOAT_HARNESS,
        streams=cfloat_streams("tonat", 4000, 40000, all_bt_quick=True, ld=(1200, 16000)),
        proof_modules=["UVerifProofs.Props.C04Cfloat"],
        level="proof",
        level_text="(cfloat clauses) Lean model of to_native (subnormal_exponent table regenerated from source) and the integer casts, and of "
                   "to_native<long double> computed step by step in the 64-bit significand (toNativeLD: 1 + f rounds for fbits >= 64, powers of "
                   "two beyond 2^+-63 come from the double function ipow, subnormals from the double table); "
                   "read-back is judged against the exact value of the encoding, the round trip against the original encoding",
        level_note="trusted: as C02; to_int() went through float (repaired in /repo: it reads back through double like to_long_long, no class "
                   "left); the bfloat/float-subnormal round trip is a KNOWN-FINDING class; long double: values outside [2^-1074, 2^1024) and the "
                   "subnormals of es >= 12 read back as 0 / inf (ipow and subnormal_exponent are double), subnormal values of targets with "
                   "fbits >= 63 do not convert back -- KNOWN-FINDING classes; repaired in /repo: a signalling NaN came back quiet through "
                   "long double (ieee754_parameter<long double> carried the binary64 NaN masks)",
        explanation="cfloat to double/float/long double/int/long long and round trip: every encoding of the small configurations, structured "
                    "encodings of the large ones; long double read-back (told, as sign|15|63 pattern) and round trip (rtld) also for "
                    "cfloat<80,15> x3, <64,15>, <48,12>, <80,11> (exponent fields at the +-63/64, +-1022..1025, -1074/-1075 boundaries of to_native)",
        assumptions=["the compiled code behaves like the model on inputs that were not explored"],
        trusted=CFLOAT_TRUSTED,
    ),
    "C06": dict(
        harness=CFLOAT_HARNESS,
        streams=cfloat_streams("order", 6000, 60000),
        proof_modules=["UVerifProofs.Props.C06Cfloat"],
        level="proof",
        level_text="(cfloat clauses) Lean model of == < (subtraction based with subnormals, field compare without) ++ -- (single- and "
                   "multi-block paths) maxpos/minpos/... and numeric_limits; judged against the order of exactly decoded values",
        level_note="trusted: as C02; D3 (bitwise ==: +0 != -0 and the zero aliases differ) is a KNOWN-FINDING class again -- the repair d3ba933 was "
                   "withdrawn because static/cfloat/logic/logic.cpp uses bit-pattern equality as its reference; == is proved to be value "
                   "equality outside that class (C06_cfloat_eq_partial), with C06_cfloat_eq_counterexample / C06_cfloat_eq_signed_zero inside it; D6 (bit above "
                   "nbits after --), ++/-- on -0 and on the zero aliases and the 5-block isminnegencoding were repaired in /repo: "
                   "C06_cfloat_step_canonical (++/-- never leave the nbits field, every configuration and operand) and C06_cfloat_step_zero "
                   "(every encoding of zero steps to minpos / minneg) are proved; ++ on maxpos without supernormals stays a KNOWN-FINDING "
                   "class (operator++ cycles through the encodings by design: the library's own increment test expects the NaN encodings)",
        explanation="cfloat comparisons (all six operators per pair), ++/-- on every encoding, extremes and numeric_limits members",
        assumptions=["the compiled code behaves like the model on inputs that were not explored"],
        trusted=CFLOAT_TRUSTED,
    ),
}


# ---- filter: this module was a worker's monolithic props.py; expose only what the worker owns -------------------------
_OWNED = ['C02', 'C03', 'C04', 'C06']
_BASE_HARNESS = ['h_pconv', 'h_pconv_san', 'h_posit', 'h_posit_san', 'h_quire', 'h_quire_san', 'h_threads', 'h_threads_tsan']
HARNESS = {k: v for k, v in HARNESS.items() if k not in _BASE_HARNESS}
CONTRIB = {k: v for k, v in PROPS.items() if k in _OWNED}
if "replay_jobs" in globals():
    _rj = replay_jobs
    def replay_jobs(prop, path, exes):
        return _rj(prop, path, exes) if prop in _OWNED else []

XBT = [cfloat_streams("arith", 3000, 40000, all_bt_quick=True, shards=1), cfloat_streams("order", 1500, 20000, all_bt_quick=True, shards=1)]
XBT_HARNESS = ["h_cfloat_u8", "h_cfloat_u16", "h_cfloat_u32", "h_cfloat_big"]

C20_HARNESS = {"h_cfloat_big_san": dict(src="h_cfloat.cpp", flags=["-DUV_PART=0"] + SAN), "h_cfloat_u8_san": dict(src="h_cfloat.cpp", flags=["-DUV_PART=8"] + SAN)}
C20_MAP = {"h_cfloat_big": "h_cfloat_big_san", "h_cfloat_u8": "h_cfloat_u8_san"}
C20_STREAMS = [cfloat_streams("arith", 1500, 30000, quick_exh8=3), cfloat_streams("tonat", 800, 20000), cfloat_streams("fromnat", 800, 20000), cfloat_streams("order", 800, 20000)]
