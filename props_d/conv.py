"""props_d/conv.py — conversions that the family modules do not cover (owner: worker `conv`).
C03 from native, C04 to native / round trip, C15 between configurations, for fixpnt, dd / qd (this file's own streams) and
lns, cfloat -> cfloat, posit <-> integer adapters (stream functions further down)."""

_BTS = ("u8", "u16", "u32")

HARNESS = {
    "h_convfix_u8": dict(src="h_convfix.cpp", flags=["-DUV_BT=8"]),
    "h_convfix_u16": dict(src="h_convfix.cpp", flags=["-DUV_BT=16"]),
    "h_convfix_u32": dict(src="h_convfix.cpp", flags=["-DUV_BT=32"]),
    "h_convdd": dict(src="h_convdd.cpp"),
}

# fixpnt configurations of harness/h_convfix.cpp: every target encoding for nbits <= 12, structured samples above
FIX_SMALL = [(2,0),(2,1),(2,2),(3,1),(4,0),(4,1),(4,2),(4,3),(4,4),(5,2),(6,3),(6,5),(7,1),(8,0),(8,3),(8,4),(8,7),(8,8),(9,4),(10,5),(10,10),(12,4)]
FIX_LARGE = [(16,8),(17,8),(24,12),(25,10),(26,20),(32,16),(33,16),(40,4),(40,20),(48,40),(53,10),(54,30),(64,0),(64,32),(64,60),(72,4),(80,40)]


def _fix_jobs(ops, tier, seed, exes, quick_rnd, thorough_rnd):
    jobs = []
    q = tier == "quick"
    k = 0
    for (n, r) in FIX_SMALL:
        for mode in ("M", "S"):
            # quick: one block type per (configuration, mode), rotating with the seed; thorough: all three
            bts = [_BTS[(seed + k) % 3]] if (q and ops == "from") else list(_BTS)
            if q and ops == "from" and n >= 12:
                k += 1
                continue          # 0.6 M lines: thorough tier only
            k += 1
            for bt in bts:
                jobs.append(dict(exe=exes["h_convfix_" + bt], args=["exh", str(n), str(r), mode, bt, "0", ops],
                                 label=f"fixpnt<{n},{r},{mode},{bt}> {ops} native, every target encoding"))
    cnt = quick_rnd if q else thorough_rnd
    for (n, r) in FIX_LARGE:
        for mode in ("M", "S"):
            bts = [_BTS[(seed + k) % 3]] if q else list(_BTS)
            k += 1
            for bt in bts:
                jobs.append(dict(exe=exes["h_convfix_" + bt], args=["rnd", str(n), str(r), mode, bt, str(cnt), ops],
                                 label=f"fixpnt<{n},{r},{mode},{bt}> {ops} native, structured"))
    jobs.sort(key=lambda j: 0 if "<10," in j["label"] or "<12," in j["label"] else 1)
    return jobs


def _dd_jobs(ops, tier, seed, exes):
    q = tier == "quick"
    shards = 2 if q else 8
    return [dict(exe=exes["h_convdd"], args=["rnd", "1500" if q else "20000", ops], env={"VERIF_SEED": str(seed * 100 + s)},
                 label=f"dd / qd {ops} native shard {s}") for s in range(shards)]


def c03_streams(tier, seed, exes):
    return _fix_jobs("from", tier, seed, exes, 250, 6000) + _dd_jobs("from", tier, seed, exes)


def c04_streams(tier, seed, exes):
    return _fix_jobs("to", tier, seed, exes, 3000, 60000) + _dd_jobs("to", tier, seed, exes)


def c15_streams(tier, seed, exes):
    q = tier == "quick"
    jobs = []
    for mode in ("M", "S"):
        for bt in _BTS:
            jobs.append(dict(exe=exes["h_convfix_" + bt], args=["resize", mode, bt, "150" if q else "4000"],
                             label=f"fixpnt size adapter, {mode}, {bt}: 19x17 configurations, every source encoding <= 10 bits"))
    return jobs


# ---- posit <-> integer adapters convert_p2i / convert_i2p (family `convpi`, harness/h_convpi.cpp, one TU per block type) ----
HARNESS.update({
    "h_convpi_u8": dict(src="h_convpi.cpp", flags=["-DUV_BT=8"]),
    "h_convpi_u16": dict(src="h_convpi.cpp", flags=["-DUV_BT=16"]),
    "h_convpi_u32": dict(src="h_convpi.cpp", flags=["-DUV_BT=32"]),
    "h_convpi_u64": dict(src="h_convpi.cpp", flags=["-DUV_BT=64"]),
    # unsigned number types of integer<>: WholeNumber on uint8_t / uint32_t blocks, NaturalNumber on uint16_t blocks
    "h_convpi_w_u8": dict(src="h_convpi.cpp", flags=["-DUV_BT=8", "-DUV_KIND=1"]),
    "h_convpi_w_u32": dict(src="h_convpi.cpp", flags=["-DUV_BT=32", "-DUV_KIND=1"]),
    "h_convpi_n_u16": dict(src="h_convpi.cpp", flags=["-DUV_BT=16", "-DUV_KIND=2"]),
})

CONVPI_BTS = ["u8", "u16", "u32", "u64"]
# every posit configuration <= 8 bits of POSIT_SMALL (props_d/posit.py) plus (9,1) (10,2): exhaustive sources of p2i
CONVPI_PSMALL = [(2,0),(3,0),(3,1),(4,0),(4,1),(4,2),(5,0),(5,1),(5,2),(5,3),(6,0),(6,1),(6,2),(6,3),(6,4),
                 (7,0),(7,1),(7,2),(7,3),(7,4),(7,5),(8,0),(8,1),(8,2),(8,3),(8,4),(8,5),(9,1),(10,2)]
CONVPI_PLARGE = [(12,1),(16,1),(20,1),(32,2),(64,3)]
# structured p2i sources: the large configurations into integer<8|16|32|64|128>, two small ones into integer<4..100>
CONVPI_P2I_RND = CONVPI_PLARGE + [(8,2),(10,2)]
CONVPI_I2P_RND = [16, 32, 64, 100, 128]


def convpi_streams(tier, seed, exes):
    quick = tier == "quick"
    jobs = []
    # 1. exhaustive: every encoding of every posit configuration <= 10 bits -> integer<4|8|12|16|32|64|100>, every block type
    for bt in CONVPI_BTS:
        exe = exes["h_convpi_" + bt]
        for (n, es) in CONVPI_PSMALL:
            jobs.append(dict(exe=exe, args=["p2i", str(n), str(es), bt, "0"],
                             label=f"convpi posit<{n},{es}> -> integer<4..100,{bt}> exhaustive"))
    # 2. exhaustive: every pattern of integer<4|8|12> -> the posit matrix (29 small + 5 large configurations)
    matrix = CONVPI_PSMALL + CONVPI_PLARGE
    for bi, bt in enumerate(CONVPI_BTS):
        exe = exes["h_convpi_" + bt]
        for ib in (4, 8):
            jobs.append(dict(exe=exe, args=["i2p", str(ib), bt, "0"], label=f"convpi integer<{ib},{bt}> -> posit matrix exhaustive"))
        cfgs = rotate(matrix, seed + 5 * bi, 5) if quick else matrix
        for (n, es) in cfgs:
            jobs.append(dict(exe=exe, args=["i2p", "12", bt, "0", str(n), str(es)],
                             label=f"convpi integer<12,{bt}> -> posit<{n},{es}> exhaustive"))
    # 3. structured samples generated from the target lattice
    shards = 1 if quick else 4
    pc = 600 if quick else 20000
    for bt in CONVPI_BTS:
        exe = exes["h_convpi_" + bt]
        for (n, es) in CONVPI_P2I_RND:
            for sh in range(shards):
                jobs.append(dict(exe=exe, args=["p2i", str(n), str(es), bt, str(pc // shards)], env={"VERIF_SEED": str(seed * 100 + sh)},
                                 label=f"convpi posit<{n},{es}> -> integer<{bt}> structured shard {sh}"))
        for ib in CONVPI_I2P_RND:
            if bt == "u64" and ib > 64:
                continue            # multi-block uint64_t (defective carry chain; did not terminate before the scale() call was removed): probed by the `hang` job
            ic = {16: 500, 32: 500, 64: 400, 100: 300, 128: 200}[ib] if quick else {16: 10000, 32: 10000, 64: 6000, 100: 4000, 128: 3000}[ib]
            for sh in range(shards):
                jobs.append(dict(exe=exe, args=["i2p", str(ib), bt, str(ic // shards)], env={"VERIF_SEED": str(seed * 100 + sh)},
                                 label=f"convpi integer<{ib},{bt}> -> posit structured shard {sh}"))
    # 4. WholeNumber / NaturalNumber integers (values with the top bit set included): every pattern of
    #    integer<4|8> into the posit matrix, integer<12> into a few configurations, structured samples; p2i on a few configurations
    for ui, (hn, bt) in enumerate((("h_convpi_w_u8", "u8"), ("h_convpi_w_u32", "u32"), ("h_convpi_n_u16", "u16"))):
        exe = exes[hn]
        kind = hn.split("_")[2]
        for ib in (4, 8):
            jobs.append(dict(exe=exe, args=["i2p", str(ib), bt, "0"], label=f"convpi integer<{ib},{bt},{kind}> -> posit matrix exhaustive"))
        for (n, es) in (rotate(matrix, seed + 3 * ui, 3) if quick else rotate(matrix, seed + 3 * ui, 12)):
            jobs.append(dict(exe=exe, args=["i2p", "12", bt, "0", str(n), str(es)],
                             label=f"convpi integer<12,{bt},{kind}> -> posit<{n},{es}> exhaustive"))
        for (n, es) in (rotate(CONVPI_PSMALL, seed + 7 * ui, 4) if quick else CONVPI_PSMALL):
            jobs.append(dict(exe=exe, args=["p2i", str(n), str(es), bt, "0"],
                             label=f"convpi posit<{n},{es}> -> integer<4..100,{bt},{kind}> exhaustive"))
        for sh in range(shards):
            env = {"VERIF_SEED": str(seed * 100 + sh)}
            for ib in (16, 32, 64, 128):
                ic = {16: 400, 32: 400, 64: 300, 128: 150}[ib] if quick else {16: 8000, 32: 8000, 64: 5000, 128: 2500}[ib]
                jobs.append(dict(exe=exe, args=["i2p", str(ib), bt, str(ic // shards)], env=env,
                                 label=f"convpi integer<{ib},{bt},{kind}> -> posit structured shard {sh}"))
            for (n, es) in ((16, 1), (32, 2)):
                jobs.append(dict(exe=exe, args=["p2i", str(n), str(es), bt, str((300 if quick else 8000) // shards)], env=env,
                                 label=f"convpi posit<{n},{es}> -> integer<{bt},{kind}> structured shard {sh}"))
    # 5. integer<100|128, uint64_t> -> posit in a forked child with a time limit
    jobs.append(dict(exe=exes["h_convpi_u64"], args=["hang", "u64"], env={"VERIF_SEED": str(seed)},
                     label="convpi integer<100|128,u64> -> posit (time-limited children)"))
    # longest first
    jobs.sort(key=lambda j: 0 if ("<128," in j["label"] or "<64,3>" in j["label"]) else (1 if "structured" in j["label"] else 2))
    return jobs



# ---- lns <-> native, lns -> lns (family `convlns`, harness/h_convlns.cpp) and cfloat -> cfloat (family `convcf`, h_convcf.cpp) ----
HARNESS.update({
    "h_convlns_u8": dict(src="h_convlns.cpp", flags=["-DUV_BT=8"]),
    "h_convlns_u16": dict(src="h_convlns.cpp", flags=["-DUV_BT=16"]),
    "h_convlns_u32": dict(src="h_convlns.cpp", flags=["-DUV_BT=32"]),
    "h_convcf": dict(src="h_convcf.cpp"),
})
CONVLNS_HARNESS = ["h_convlns_u8", "h_convlns_u16", "h_convlns_u32"]

CL_SMALL = [(n, r) for n in range(2, 10) for r in range(0, n)] + [(10, 0), (10, 4), (10, 9)]
CL_LARGE = [(16, 8), (17, 8), (24, 12), (32, 16), (12, 4), (16, 5)]
CL_BTS = ["u8", "u16", "u32"]
CL_L2L_SRC = [(4, 1), (6, 2), (8, 2), (8, 4), (9, 3), (10, 5), (12, 4), (12, 8), (16, 8), (16, 5), (17, 8), (24, 12), (28, 12), (32, 16)]
CL_L2L_TGT = [(5, 2), (8, 3), (8, 4), (9, 4), (12, 4), (16, 8), (16, 5), (24, 12), (32, 16)]
CF_LARGE_PAIRS = 148          # `h_convcf list`


def convlns_streams(ops, quick_rnd, thorough_rnd, quick_combos):
    """ops = from (C03) | to (C04). Every target / source encoding of the small configurations; quick tier: `quick_combos` of the six
    (behaviour, block type) combinations per configuration, rotating with the seed and the configuration index."""
    def f(tier, seed, exes):
        jobs = []
        combos = [(beh, bt) for beh in "SW" for bt in CL_BTS]
        for i, (n, r) in enumerate(CL_SMALL):
            cs = combos if tier != "quick" else [combos[(seed * 5 + i * 7 + k * 3) % 6] for k in range(quick_combos)]
            for (beh, bt) in dict.fromkeys(cs):
                jobs.append(dict(exe=exes["h_convlns_" + bt], args=["exh", str(n), str(r), beh, "0", ops],
                                 label=f"lns<{n},{r},{bt},{beh}> conversions {ops}: every encoding", cost=(2 ** n) * 40 + 3000))
        cnt = quick_rnd if tier == "quick" else thorough_rnd
        for i, (n, r) in enumerate(CL_LARGE):
            for j, beh in enumerate("SW"):
                bts = CL_BTS if tier != "quick" else [CL_BTS[(seed + i + j) % 3]]
                for bt in bts:
                    jobs.append(dict(exe=exes["h_convlns_" + bt], args=["rnd", str(n), str(r), beh, str(cnt), ops],
                                     env={"VERIF_SEED": str(seed * 100 + i)},
                                     label=f"lns<{n},{r},{bt},{beh}> conversions {ops}: structured encodings", cost=cnt * 50))
        jobs.sort(key=lambda j: -j.get("cost", 0))
        return jobs
    return f


def l2l_streams(tier, seed, exes):
    jobs = []
    cnt = 500 if tier == "quick" else 8000
    combos = [(beh, bt) for beh in "SW" for bt in CL_BTS]
    k = 0
    for (n1, r1) in CL_L2L_SRC:
        for (n2, r2) in CL_L2L_TGT:
            k += 1
            cs = combos if tier != "quick" else [combos[(seed * 5 + k) % 6]]
            for (beh, bt) in cs:
                jobs.append(dict(exe=exes["h_convlns_" + bt], args=["l2l", str(n1), str(r1), str(n2), str(r2), beh, str(cnt)],
                                 env={"VERIF_SEED": str(seed * 100 + k)},
                                 label=f"lns<{n1},{r1}> -> lns<{n2},{r2}> {bt} {beh}", cost=(2 ** n1 if n1 <= 12 else cnt)))
    jobs.sort(key=lambda j: -j.get("cost", 0))
    return jobs


def c2c_streams(tier, seed, exes):
    exe = exes["h_convcf"]
    jobs = [dict(exe=exe, args=["small", "0"], label="cfloat -> cfloat: 12x12 small configurations, every source encoding, c2c + round trip", cost=10 ** 6)]
    cnt = 100 if tier == "quick" else 2000
    for k in range(CF_LARGE_PAIRS):
        jobs.append(dict(exe=exe, args=["large", str(cnt), str(k)], env={"VERIF_SEED": str(seed * 100 + k)},
                         label=f"cfloat -> cfloat: large pair {k} (sources from the target lattice, boundaries, structured)", cost=cnt * 10))
    if tier == "quick":
        # group the many short pair jobs into a few processes' worth of work: one job per 16 pairs is not possible with one exe
        # call, so keep them separate but cheap (about 500 lines each)
        pass
    jobs.sort(key=lambda j: -j.get("cost", 0))
    return jobs



_FIX_H = ["h_convfix_u8", "h_convfix_u16", "h_convfix_u32"]
_PI_H = ["h_convpi_u8", "h_convpi_u16", "h_convpi_u32", "h_convpi_u64", "h_convpi_w_u8", "h_convpi_w_u32", "h_convpi_n_u16"]

CONTRIB = {
    "C03": dict(harness=_FIX_H + ["h_convdd"] + CONVLNS_HARNESS,
                streams=lambda tier, seed, exes: c03_streams(tier, seed, exes) + convlns_streams("from", 120, 2500, 1)(tier, seed, exes),
                proof_modules=["UVerifProofs.Props.C03ConvFixpnt", "UVerifProofs.Props.C03ConvDD", "UVerifProofs.Props.C03ConvLns"]),
    "C04": dict(harness=_FIX_H + ["h_convdd"] + CONVLNS_HARNESS,
                streams=lambda tier, seed, exes: c04_streams(tier, seed, exes) + convlns_streams("to", 1500, 30000, 2)(tier, seed, exes),
                proof_modules=["UVerifProofs.Props.C04ConvFixpnt", "UVerifProofs.Props.C04ConvDD"]),
    "C15": dict(harness=_FIX_H + _PI_H + CONVLNS_HARNESS + ["h_convcf"],
                streams=lambda tier, seed, exes: (c15_streams(tier, seed, exes) + convpi_streams(tier, seed, exes)
                                                  + l2l_streams(tier, seed, exes) + c2c_streams(tier, seed, exes)),
                proof_modules=["UVerifProofs.Props.C15ConvFixpnt", "UVerifProofs.Props.C15ConvPosInt", "UVerifProofs.Props.C15ConvLns",
                               "UVerifProofs.Props.C15ConvCfloat", "UVerifProofs.Props.C15ConvCfloatIdentity"]),
}


def replay_jobs(prop, path, exes):
    """check.py --replay / corpus: re-execute the inputs of recorded convfix / convdd / ddconv lines through the CURRENT headers
    (only when the file contains such lines, so that other families' replays still fall back to the recorded lines)"""
    if prop not in ("C03", "C04", "C15"):
        return []
    try:
        txt = open(path).read()
    except OSError:
        return []
    import os
    jobs = []
    if "convfix " in txt:
        for bt in _BTS:
            if ("h_convfix_" + bt) in exes and (" " + bt + " ") in txt:
                jobs.append(dict(exe=exes["h_convfix_" + bt], args=["replay", path, bt], label=f"fixpnt conversions ({bt}) re-run of " + os.path.basename(path)))
    if ("convdd " in txt or "ddconv " in txt) and "h_convdd" in exes:
        jobs.append(dict(exe=exes["h_convdd"], args=["replay", path], label="dd / qd conversions re-run of " + os.path.basename(path)))
    return jobs
