"""props_d/eft.py — generated from worker `eft`'s props.py by merge_worker.py"""
"""props.py — per-property configuration of check.py: harness TUs, streams per tier, proof modules."""
import os

HARNESS = {
    "h_posit": dict(src="h_posit.cpp"),
    # error-free transformations / hardware binary64 primitives; -O3 and contracted variants of the same TU
    "h_eft": dict(src="h_eft.cpp"),
    "h_eft_O3": dict(src="h_eft.cpp", flags=["-O3"]),
    "h_eft_fc": dict(src="h_eft.cpp", flags=["-O3", "-ffp-contract=fast", "-mfma", "-DUV_SPECONLY"]),
    "h_eftcf": dict(src="h_eftcf.cpp"),   # generic twoSum<Scalar> on cfloat types
    # double-double / quad-double
    "h_dd": dict(src="h_dd.cpp"),
    "h_dd_O3": dict(src="h_dd.cpp", flags=["-O3"]),
    "h_dd_fc": dict(src="h_dd.cpp", flags=["-O3", "-ffp-contract=fast", "-mfma", "-DUV_SPECONLY"]),
}

POSIT_SMALL = [(n, es) for n in range(2, 9) for es in range(0, 6) if es <= n - 2 or (n, es) in ((2, 0),)]
POSIT_SMALL = [(n, es) for (n, es) in POSIT_SMALL if (n, es) in {
    (2,0),(3,0),(3,1),(4,0),(4,1),(4,2),(5,0),(5,1),(5,2),(5,3),(6,0),(6,1),(6,2),(6,3),(6,4),
    (7,0),(7,1),(7,2),(7,3),(7,4),(7,5),(8,0),(8,1),(8,2),(8,3),(8,4),(8,5)}]
POSIT_LARGE = [(9,1),(10,2),(12,1),(16,1),(16,2),(20,1),(24,2),(32,2),(32,3),(48,2),(64,3),(64,2)]


def rotate(lst, seed, k):
    """deterministic rotating subset of size k chosen from the seed"""
    if k >= len(lst):
        return list(lst)
    start = (seed * 7) % len(lst)
    return [lst[(start + i) % len(lst)] for i in range(k)]


def posit_streams(ops, quick_exh8, quick_rnd, thorough_rnd):
    def f(tier, seed, exes):
        exe = exes["h_posit"]
        jobs = []
        small = [c for c in POSIT_SMALL if c[0] <= 7]
        eight = [c for c in POSIT_SMALL if c[0] == 8]
        if tier == "quick":
            cfgs = small + rotate(eight, seed, quick_exh8)
        else:
            cfgs = small + eight
        for (n, es) in cfgs:
            jobs.append(dict(exe=exe, args=["exh", str(n), str(es), "0", ops], label=f"posit<{n},{es}> exhaustive {ops}"))
        cnt = quick_rnd if tier == "quick" else thorough_rnd
        for (n, es) in POSIT_LARGE:
            # split large sample counts into shards with distinct seeds so that all cores are used
            shards = 1 if tier == "quick" else 4
            for s in range(shards):
                jobs.append(dict(exe=exe, args=["rnd", str(n), str(es), str(cnt // shards), ops],
                                 env={"VERIF_SEED": str(seed * 100 + s)}, label=f"posit<{n},{es}> structured {ops} shard {s}"))
        # longest jobs first
        jobs.sort(key=lambda j: 0 if "exhaustive" in j["label"] and "<8," in j["label"] else 1)
        return jobs
    return f


def corpus_jobs(prop, path, exes):
    return [dict(file=path, label="corpus:" + os.path.basename(path))]


def shard_jobs(exe, mode_args, shards, seed, label):
    """the same generator with `shards` distinct seeds derived from the run's seed"""
    return [dict(exe=exe, args=list(mode_args), env={"VERIF_SEED": str(seed * 1000 + i)}, label=f"{label} shard {i}")
            for i in range(shards)]


EFTCF_SMALL = [(5, 2), (6, 2), (6, 3), (7, 2), (7, 3), (8, 2), (8, 3), (8, 4), (8, 5)]
EFTCF_LARGE = [(12, 4), (16, 5), (16, 8), (32, 8)]


def eft_streams(tier, seed, exes):
    """C13: hardware binary64 vs Model.F64, then the EFTs (-O1, -O3, and a contracted build judged by the spec only)"""
    q = tier == "quick"
    jobs = [dict(exe=exes["h_eft"], args=["wit"], label="eft guard-corner witnesses")]
    jobs += shard_jobs(exes["h_eft"], ["rnd", "5000" if q else "40000", "all"], 8 if q else 16, seed, "f64+eft -O1")
    jobs += shard_jobs(exes["h_eft_O3"], ["rnd", "3000" if q else "40000", "eft"], 2 if q else 8, seed + 7, "eft -O3")
    jobs += shard_jobs(exes["h_eft_fc"], ["rnd", "3000" if q else "40000", "eft"], 2 if q else 8, seed + 13, "eft -O3 -ffp-contract=fast -mfma (spec only)")
    # generic twoSum<Scalar> on cfloat<nbits,es,bt,true,false,false>: every pair of the small configurations, samples of the large ones
    for (n, es) in EFTCF_SMALL:
        jobs.append(dict(exe=exes["h_eftcf"], args=["exh", str(n), str(es)], label=f"twoSum<cfloat<{n},{es}>> exhaustive"))
    for (n, es) in EFTCF_LARGE:
        jobs += shard_jobs(exes["h_eftcf"], ["rnd", str(n), str(es), "20000" if q else "200000"], 1 if q else 2, seed + 17, f"twoSum<cfloat<{n},{es}>> structured")
    return jobs


def dd_streams(tier, seed, exes):
    """C10: hardware primitives (validates Model.F64), dd and qd operators"""
    q = tier == "quick"
    jobs = [dict(exe=exes["h_dd"], args=["wit"], label="dd/qd witnesses of the recorded input classes")]
    jobs += shard_jobs(exes["h_dd"], ["rnd", "2500" if q else "20000", "dd"], 8 if q else 16, seed, "dd -O1")
    jobs += shard_jobs(exes["h_dd"], ["rnd", "1500" if q else "12000", "qd"], 6 if q else 16, seed + 3, "qd -O1")
    jobs += shard_jobs(exes["h_eft"], ["rnd", "5000" if q else "40000", "f64"], 2 if q else 4, seed + 5, "f64 primitives")
    jobs += shard_jobs(exes["h_dd_O3"], ["rnd", "1500" if q else "12000", "arith"], 2 if q else 8, seed + 7, "dd+qd -O3")
    jobs += shard_jobs(exes["h_dd_fc"], ["rnd", "1500" if q else "12000", "arith"], 2 if q else 8, seed + 13, "dd+qd -O3 -ffp-contract=fast -mfma (spec only)")
    return jobs


def replay_jobs(prop, path, exes):
    """check.py --replay: besides judging the recorded lines, re-run their inputs through the current implementation"""
    fn = PROPS.get(prop, {}).get("replay")
    return fn(path, exes) if fn else []


HOOK_COMMITS = []
NOT_YET = {}

PROPS = {
    "C01": dict(
        harness=["h_posit"],
        streams=posit_streams("arith", 2, 20000, 400000),
        level="proof",
        level_text="Lean theorems about the executable model of decode/module_add/sub/mul/div/convert_ and the Posit-Standard rounding "
                   "relation; the compiled headers are tied to the model by exhaustive (<=8 bit) and structured differential transcripts, "
                   "and every implementation output is judged by the executable rounding relation",
        level_note="trusted: Lean kernel, hand-written model (tied by correspondence only on explored inputs), g++ 12.2; "
                   "theorems proved so far are listed in the evidence file, unproved obligations are stated in DESIGN.md",
        explanation="posit + - * / reciprocal negate abs: Lean model of decode/module_*/convert_ vs. the Posit-Standard "
                    "rounding relation; correspondence by exhaustive enumeration of small configurations and structured sampling of large ones",
        assumptions=["the compiled code behaves like the model on inputs that were not explored"],
    ),
    "C13": dict(
        harness=["h_eft", "h_eft_O3", "h_eft_fc", "h_eftcf"],
        streams=eft_streams,
        replay=lambda path, exes: [dict(exe=exes["h_eft"], args=["replay", path], label="replay inputs through the current implementation")],
        level="proof",
        level_text="Lean theorems over a generic-precision round-to-nearest-even model with gradual underflow (floats = integer multiples of "
                   "the smallest subnormal): RN is nearest/monotone/exact, Sterbenz, representable sum error; quick_two_sum (Dekker), two_sum and "
                   "two_diff (Knuth, no magnitude hypothesis, p >= 2), generic twoSum, three_sum, split (Veltkamp: hi+lo = a for every float, both "
                   "branches incl. the ldexp rescaling above SPLIT_THRESHOLD; bit widths for normal floats), two_prod and two_sqr (Dekker product, "
                   "all operands - zero, subnormal, normal - by scale invariance, no underflow) - each both on integer units and "
                   "for the model functions the driver runs; Model.F64 is checked bit for bit against the hardware and every implementation output "
                   "is judged by the exact rational identity and the round-to-nearest-even relation",
        level_note="proved for all operands within the property's guards (formats with p >= 4 and p + 2(BITS+1) <= top for the product forms; "
                   "|x| < 2^(top-1); no-underflow guard q <= (size a - p) + (size b - p)); trusted: Lean kernel, hand-written model, g++ 12.2 (-O1, -O3; a contracted "
                   "-ffp-contract=fast -mfma build is judged by the spec predicate only)",
        explanation="two_sum, quick_two_sum, two_diff, split, two_prod, two_sqr, three_sum (and the generic twoSum<double>): model = the C++ "
                    "statement sequence over an exact-integer model of binary64; spec = s + r == a (op) b exactly and s == RN(a (op) b) under the "
                    "property's magnitude guards; correspondence on structured operands (exponent gaps 0..110, ties, subnormals, cancellation, overflow)",
        assumptions=["the compiled code behaves like the model on inputs that were not explored",
                     "three_sum: the property's 'first output correctly rounded' clause is read as applying to the two-output transformations "
                     "(x of three_sum is RN(c + RN(a+b)), not RN(a+b+c)); the fraction of lines where it is RN(a+b+c) is reported in the tag histogram"],
    ),
    "C10": dict(
        harness=["h_dd", "h_dd_O3", "h_dd_fc", "h_eft"],
        streams=dd_streams,
        replay=lambda path, exes: [dict(exe=exes["h_dd"], args=["replay", path], label="replay dd/qd inputs through the current implementation"),
                                   dict(exe=exes["h_eft"], args=["replay", path], label="replay f64 inputs through the current implementation")],
        level="proof",
        level_text="Lean theorems: weak normalisation |lo| <= ulp(hi) of dd + - * (what the closing three_sum guarantees, p >= 6, any "
                   "cancellation, subnormals); proved relative error 3*2^(-2p) (3*2^-106) for dd + and -; exactness clauses (dd sum and dd product of "
                   "two doubles exact with correctly rounded head, x-x = 0, multiplication by a power of two exact incl. subnormal tails); NaN/inf "
                   "propagation of + - * /, dd division agrees with double division on every special-value case (finite/inf, x/+-0 signs, inf/inf, 0/0) and "
                   "sqrt(+inf) = +inf (after the fix: commits); counterexample theorems where the code deviates (strict normalisation D21, "
                   "DBL_MAX*0.5); the relative-error constants of * / sqrt and of qd are measured exactly on rationals for every "
                   "transcript line, not proved",
        level_note="partial: error bounds of dd * / sqrt and all qd bounds are measured only (k = 4 for *, 10 for / and sqrt; 4*2^-212 for qd); "
                   "trusted: Lean kernel, hand-written model, g++ 12.2",
        explanation="dd + - * / sqrt and qd + - *: model = the C++ statement sequence (two_sum/two_prod/three_sum/renorm/fma) over Model.F64; spec = "
                    "normalisation |lo| <= ulp(hi)/2, relative error bound on exact rationals, exactness clauses, inf/NaN like doubles",
        assumptions=["the compiled code behaves like the model on inputs that were not explored",
                     "'underflow' is read as |exact result| < numeric_limits<dd>::min() = 2^-969 (2^-863 for qd), 'overflow' as |exact result| > DBL_MAX"],
    ),
}


# ---- filter: this module was a worker's monolithic props.py; expose only what the worker owns -------------------------
_OWNED = ['C13', 'C10']
_BASE_HARNESS = ['h_pconv', 'h_pconv_san', 'h_posit', 'h_posit_san', 'h_quire', 'h_quire_san', 'h_threads', 'h_threads_tsan']
HARNESS = {k: v for k, v in HARNESS.items() if k not in _BASE_HARNESS}
CONTRIB = {k: v for k, v in PROPS.items() if k in _OWNED}
if "replay_jobs" in globals():
    _rj = replay_jobs
    def replay_jobs(prop, path, exes):
        return _rj(prop, path, exes) if prop in _OWNED else []
