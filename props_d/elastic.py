"""props_d/elastic.py — generated from worker `elastic`'s props.py by merge_worker.py"""
"""props.py — per-property configuration of check.py: harness TUs, streams per tier, proof modules."""
import os

HARNESS = {
    "h_posit": dict(src="h_posit.cpp"),
    "h_elastic": dict(src="h_elastic.cpp"),
}

POSIT_SMALL = [(n, es) for n in range(2, 9) for es in range(0, 6) if es <= n - 2 or (n, es) in ((2, 0),)]
POSIT_SMALL = [(n, es) for (n, es) in POSIT_SMALL if (n, es) in {
    (2,0),(3,0),(3,1),(4,0),(4,1),(4,2),(5,0),(5,1),(5,2),(5,3),(6,0),(6,1),(6,2),(6,3),(6,4),
    (7,0),(7,1),(7,2),(7,3),(7,4),(7,5),(8,0),(8,1),(8,2),(8,3),(8,4),(8,5)}]
POSIT_LARGE = [(9,1),(10,2),(12,1),(16,1),(16,2),(20,1),(24,2),(32,2),(32,3),(48,2),(64,3),(64,2)]


def rotate(lst, seed, k):
    """deterministic rotating subset of size k chosen from the seed"""
    if k >= len(lst):
        return list(lst)
    start = (seed * 7) % len(lst)
    return [lst[(start + i) % len(lst)] for i in range(k)]


def posit_streams(ops, quick_exh8, quick_rnd, thorough_rnd):
    def f(tier, seed, exes):
        exe = exes["h_posit"]
        jobs = []
        small = [c for c in POSIT_SMALL if c[0] <= 7]
        eight = [c for c in POSIT_SMALL if c[0] == 8]
        if tier == "quick":
            cfgs = small + rotate(eight, seed, quick_exh8)
        else:
            cfgs = small + eight
        for (n, es) in cfgs:
            jobs.append(dict(exe=exe, args=["exh", str(n), str(es), "0", ops], label=f"posit<{n},{es}> exhaustive {ops}"))
        cnt = quick_rnd if tier == "quick" else thorough_rnd
        for (n, es) in POSIT_LARGE:
            # split large sample counts into shards with distinct seeds so that all cores are used
            shards = 1 if tier == "quick" else 4
            for s in range(shards):
                jobs.append(dict(exe=exe, args=["rnd", str(n), str(es), str(cnt // shards), ops],
                                 env={"VERIF_SEED": str(seed * 100 + s)}, label=f"posit<{n},{es}> structured {ops} shard {s}"))
        # longest jobs first
        jobs.sort(key=lambda j: 0 if "exhaustive" in j["label"] and "<8," in j["label"] else 1)
        return jobs
    return f


def elastic_streams(ops, quick_rnd, thorough_rnd):
    """einteger<u8|u16|u32>, edecimal, erational: small exhaustive grids + structured random operands and chains.
    counts are generator iterations per family (one iteration = one operand pair through every operator, or one chain)."""
    fams = ["eint8", "eint16", "eint32", "edec", "erat"]
    def f(tier, seed, exes):
        exe = exes["h_elastic"]
        jobs = []
        for fam in fams:
            jobs.append(dict(exe=exe, args=["exh", fam, "0", ops], label=f"elastic {fam} grid {ops}"))
        cnt = quick_rnd if tier == "quick" else thorough_rnd
        shards = 2 if tier == "quick" else 12
        for fam in fams:
            n = cnt // shards
            if fam == "erat":
                n = max(1, n // 2)          # Euclid on digit vectors: slowest model per line
            for s in range(shards):
                jobs.append(dict(exe=exe, args=["rnd", fam, str(n), ops],
                                 env={"VERIF_SEED": str(seed * 100 + s)}, label=f"elastic {fam} structured {ops} shard {s}"))
        jobs.sort(key=lambda j: 0 if "eint32" in j["label"] else 1)
        return jobs
    return f


def replay_jobs(prop, path, exes):
    """--replay FILE: besides judging the recorded outputs, re-execute the recorded inputs on the current tree."""
    if "h_elastic" in exes:
        return [dict(exe=exes["h_elastic"], args=["replay", path], label="re-executed:" + os.path.basename(path))]
    return []


def corpus_jobs(prop, path, exes):
    return [dict(file=path, label="corpus:" + os.path.basename(path))]


HOOK_COMMITS = []
NOT_YET = {}

PROPS = {
    "C14": dict(
        harness=["h_elastic"],
        streams=elastic_streams("all", 4000, 120000),
        level="proof",
        level_text="Lean theorems about the executable model of einteger (limb lists, any limb width), edecimal (digit lists) and "
                   "erational against Int/Rat arithmetic; the model transcribes the current loops including their remaining defects, the "
                   "compiled headers are tied to it by grid + structured differential transcripts (operands of 1..60 limbs, "
                   "chains of 1..50 operations), every implementation output is judged against exact Int/Rat arithmetic",
        level_note="PROVED for every limb width / every length / every sign: einteger + - * (C14_eint_add, C14_eint_sub, "
                   "C14_eint_mul: exact, no most-significant zero limb), << and >> for every count (C14_eint_shift, "
                   "C14_eint_shift_right), all six comparisons (C14_eint_cmp), / % by a single-limb divisor with the signs of "
                   "truncating division and unsigned zero results (C14_eint_divrem_partial), decimal output and parse "
                   "(C14_eint_to_string, C14_eint_parse), histories without any region restriction (C14_history), uint64 wrap = "
                   "arithmetic form (C14_eint_u64_steps). edecimal + - * / % comparisons shifts negation, never a negative or "
                   "padded zero (C14_edec_add/sub/mul/divrem/cmp/shift, C14_neg, C14_edec_history, C14_edec_to_string). "
                   "erational + - * / exact, lowest terms, positive denominator, zero unique, histories (C14_erat_*). "
                   "STATED, NOT PROVED: C14_eint_divrem_full for divisors of two or more limbs — the repaired Knuth-D branch of "
                   "einteger::reduce is tied to exact arithmetic by the correspondence streams and the spec predicate only "
                   "(every / and % line is judged against Int.tdiv/tmod; q-hat correction and add-back are exercised). "
                   "trusted: Lean kernel, hand-written model, g++ 12.2 (arithmetic >> on negative int64_t)",
        explanation="elastic types: Lean model of einteger<u8|u16|u32> (+= -= *= reduce <<= >>= comparisons parse print), edecimal "
                    "(+ - * long division unpad) and erational (cross multiplication, Euclid normalize) vs. Int/Rat; "
                    "correspondence by operand grids and structured random operands/histories; all formerly known defects of the "
                    "elastic types (D16, D17) are repaired upstream and modelled as repaired: no KNOWN-FINDING class is left",
        assumptions=["the compiled code behaves like the model on inputs that were not explored",
                     "the harness still runs einteger<uint32_t> multi-limb divisions under a CPU limit (none is skipped any more)"],
    ),
    "C01": dict(
        harness=["h_posit"],
        streams=posit_streams("arith", 2, 20000, 400000),
        level="proof",
        level_text="Lean theorems about the executable model of decode/module_add/sub/mul/div/convert_ and the Posit-Standard rounding "
                   "relation; the compiled headers are tied to the model by exhaustive (<=8 bit) and structured differential transcripts, "
                   "and every implementation output is judged by the executable rounding relation",
        level_note="trusted: Lean kernel, hand-written model (tied by correspondence only on explored inputs), g++ 12.2; "
                   "theorems proved so far are listed in the evidence file, unproved obligations are stated in DESIGN.md",
        explanation="posit + - * / reciprocal negate abs: Lean model of decode/module_*/convert_ vs. the Posit-Standard "
                    "rounding relation; correspondence by exhaustive enumeration of small configurations and structured sampling of large ones",
        assumptions=["the compiled code behaves like the model on inputs that were not explored"],
    ),
}


# ---- filter: this module was a worker's monolithic props.py; expose only what the worker owns -------------------------
_OWNED = ['C14']
_BASE_HARNESS = ['h_pconv', 'h_pconv_san', 'h_posit', 'h_posit_san', 'h_quire', 'h_quire_san', 'h_threads', 'h_threads_tsan']
HARNESS = {k: v for k, v in HARNESS.items() if k not in _BASE_HARNESS}
CONTRIB = {k: v for k, v in PROPS.items() if k in _OWNED}
if "replay_jobs" in globals():
    _rj = replay_jobs
    def replay_jobs(prop, path, exes):
        return _rj(prop, path, exes) if prop in _OWNED else []

C20_HARNESS = {"h_elastic_san": dict(src="h_elastic.cpp", flags=SAN)}
C20_MAP = {"h_elastic": "h_elastic_san"}
C20_STREAMS = [elastic_streams("all", 300, 10000)]
