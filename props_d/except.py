"""props_d/except.py — C19 exception-mode comparison (built by the `except` worker)."""
import os

HARNESS = {
    # ONE source compiled twice — every *_THROW_ARITHMETIC_EXCEPTION switch off (quiet) / on (throwing)
    "h_except_q": dict(src="h_except.cpp"),
    "h_except_t": dict(src="h_except.cpp", flags=["-DUV_EXC_THROWING=1"]),
}

# ---- C19: exception-mode comparison -----------------------------------------------------------------------------
EXC_EXH_QUICK = ["posit 8 1", "posit 6 1", "cfloat 6 2 u8 000", "cfloat 8 2 u8 110", "cfloat 8 4 u8 100",
                 "fixpnt 8 4 M u8", "fixpnt 8 4 S u8", "fixpnt 6 2 M u8", "integer 8 u8", "integer 8 u16", "integer 6 u8",
                 "lns 8 3 u8", "lns 6 2 u8", "eint u8", "eint u16", "eint u32", "edec -", "erat -"]
EXC_EXH_MORE = ["posit 7 0", "posit 8 0", "posit 8 2", "cfloat 6 2 u8 110", "cfloat 8 2 u8 000", "cfloat 8 3 u8 011",
                "fixpnt 8 0 M u8", "lns 8 4 u16"]
EXC_RND = ["posit 16 1", "posit 32 2", "posit 64 3", "cfloat 16 5 u16 100", "cfloat 16 8 u8 000", "cfloat 32 8 u32 100",
           "fixpnt 16 8 M u16", "fixpnt 24 12 M u8", "fixpnt 32 16 M u32", "integer 12 u8", "integer 16 u16", "integer 32 u32",
           "integer 40 u8", "integer 64 u32", "lns 16 8 u16", "lns 24 12 u8", "eint u8", "eint u16", "eint u32", "edec -", "erat -"]


def exc_streams(tier, seed, exes):
    """the throwing build runs the quiet build (`pair <quiet exe> …`), re-executes every operation of its transcript and
    prints one combined line per operation"""
    q, t = exes["h_except_q"], exes["h_except_t"]
    jobs = []
    exh = EXC_EXH_QUICK + (EXC_EXH_MORE if tier != "quick" else rotate(EXC_EXH_MORE, seed, 2))
    for c in exh:
        jobs.append(dict(exe=t, args=["pair", q] + c.split() + ["exh", "0", "all"], label=f"exc {c} exhaustive"))
    cnt = 20000 if tier == "quick" else 250000
    shards = 1 if tier == "quick" else 4
    for c in EXC_RND:
        for s in range(shards):
            jobs.append(dict(exe=t, args=["pair", q] + c.split() + ["rnd", str(cnt // shards), "all"],
                             env={"VERIF_SEED": str(seed * 100 + s)}, label=f"exc {c} structured shard {s}"))
    return jobs


def exc_replay_jobs(path, exes):
    """C19: re-run the operations named in a replay/corpus file through both builds of the current headers"""
    return [dict(exe=exes["h_except_t"], args=["pairfile", exes["h_except_q"], path], label="exc re-run of " + os.path.basename(path))]


def replay_jobs(prop, path, exes):
    if prop == "C19":
        return exc_replay_jobs(path, exes)
    return []



CONTRIB = {
    "C19": dict(
        harness=["h_except_q", "h_except_t"],
        streams=exc_streams,
        level="proof",
        level_text="Lean theorems about the transcribed #if/#else prologues of both builds (throw decision = the property's operand "
                   "list with the documented exception type; a value returned by the throwing build is the quiet build's value, for "
                   "every shared-arithmetic function); both builds of the real headers are run on the same operands and every pair of "
                   "outcomes is judged by the executable spec predicate",
        level_note="trusted: Lean kernel, hand-written prologue model (tied by correspondence on explored inputs), g++ 12.2; the arithmetic "
                   "after the prologue is the same source text in both builds and is a parameter of the theorems — its equality across "
                   "the two builds is established by the differential run only",
        explanation="posit/cfloat/fixpnt/integer/lns/einteger/edecimal/erational operators compiled twice from one harness source "
                    "(all *_THROW_ARITHMETIC_EXCEPTION switches off / on); per operand pair: value, exception type, SIGFPE and "
                    "std::cerr activity of both builds; exhaustive on 6-8 bit configurations, structured samples above",
        assumptions=["the compiled code behaves like the model on inputs that were not explored",
                     "undefined float-to-integer casts (posit to_int… on out-of-range values) compile to the same instructions in both builds"],
        rule="one transcript line = one operator executed on the same concrete operands by the quiet build and by the throwing build "
             "of the real headers; distinct = distinct lines",
    ),
}
