"""props_d/fast.py — generated from worker `fast`'s props.py by merge_worker.py"""
"""props.py — per-property configuration of check.py: harness TUs, streams per tier, proof modules."""
import os

HARNESS = {
    "h_posit": dict(src="h_posit.cpp"),
    # C11: one source, two builds (generic / all fast specialisations) + the C API in two link variants
    "h_fast_g": dict(src="h_fast.cpp"),
    "h_fast_f": dict(src="h_fast.cpp", flags=["-DPOSIT_FAST_SPECIALIZATION=1"]),
    "h_capi_pure": dict(src="h_capi.c", cc="gcc", std=["-std=c11"], flags=['-DCAPI_IMPL="purec"'],
                        extra_src=["$REPO/c_api/pure_c/posit/posit8.c"], libs=["-lm"]),
    "h_capi_shim": dict(src="h_capi.c", flags=['-DCAPI_IMPL="shim"'], extra_src=["$REPO/c_api/shim/posit/posit_c_api.cpp"]),
    # C17: sqrt of posit (generic build and fast build), fixpnt, integer
    "h_sqrt": dict(src="h_sqrt.cpp"),
    "h_sqrt_fast": dict(src="h_sqrt.cpp", flags=["-DPOSIT_FAST_SPECIALIZATION=1"]),
    "h_sqrt_native": dict(src="h_sqrt.cpp", flags=["-DPOSIT_NATIVE_SQRT=1"]),
}

POSIT_SMALL = [(n, es) for n in range(2, 9) for es in range(0, 6) if es <= n - 2 or (n, es) in ((2, 0),)]
POSIT_SMALL = [(n, es) for (n, es) in POSIT_SMALL if (n, es) in {
    (2,0),(3,0),(3,1),(4,0),(4,1),(4,2),(5,0),(5,1),(5,2),(5,3),(6,0),(6,1),(6,2),(6,3),(6,4),
    (7,0),(7,1),(7,2),(7,3),(7,4),(7,5),(8,0),(8,1),(8,2),(8,3),(8,4),(8,5)}]
POSIT_LARGE = [(9,1),(10,2),(12,1),(16,1),(16,2),(20,1),(24,2),(32,2),(32,3),(48,2),(64,3),(64,2)]


def rotate(lst, seed, k):
    """deterministic rotating subset of size k chosen from the seed"""
    if k >= len(lst):
        return list(lst)
    start = (seed * 7) % len(lst)
    return [lst[(start + i) % len(lst)] for i in range(k)]


def posit_streams(ops, quick_exh8, quick_rnd, thorough_rnd):
    def f(tier, seed, exes):
        exe = exes["h_posit"]
        jobs = []
        small = [c for c in POSIT_SMALL if c[0] <= 7]
        eight = [c for c in POSIT_SMALL if c[0] == 8]
        if tier == "quick":
            cfgs = small + rotate(eight, seed, quick_exh8)
        else:
            cfgs = small + eight
        for (n, es) in cfgs:
            jobs.append(dict(exe=exe, args=["exh", str(n), str(es), "0", ops], label=f"posit<{n},{es}> exhaustive {ops}"))
        cnt = quick_rnd if tier == "quick" else thorough_rnd
        for (n, es) in POSIT_LARGE:
            # split large sample counts into shards with distinct seeds so that all cores are used
            shards = 1 if tier == "quick" else 4
            for s in range(shards):
                jobs.append(dict(exe=exe, args=["rnd", str(n), str(es), str(cnt // shards), ops],
                                 env={"VERIF_SEED": str(seed * 100 + s)}, label=f"posit<{n},{es}> structured {ops} shard {s}"))
        # longest jobs first
        jobs.sort(key=lambda j: 0 if "exhaustive" in j["label"] and "<8," in j["label"] else 1)
        return jobs
    return f


FAST_SMALL = [(2, 0), (3, 0), (3, 1), (4, 0)]
FAST_8 = [(8, 0), (8, 1), (8, 2)]
FAST_LARGE = [(16, 1), (16, 2), (32, 2)]


def fast_streams(tier, seed, exes):
    """C11: generic build, fast build, pure C posit8, C shim — all judged against the generic model."""
    jobs = []
    builds = [("generic", exes["h_fast_g"]), ("fast", exes["h_fast_f"])]
    for (n, es) in FAST_SMALL + FAST_8 + FAST_LARGE:
        for name, exe in builds:
            jobs.append(dict(exe=exe, args=["api", str(n), str(es)], label=f"{name} posit<{n},{es}> api"))
    for (n, es) in FAST_SMALL + FAST_8:
        for name, exe in builds:
            jobs.append(dict(exe=exe, args=["exh", str(n), str(es), "0", "all"], label=f"{name} posit<{n},{es}> exhaustive all"))
    pairs = 300000 if tier == "quick" else 3000000
    shard = 100000 if tier == "quick" else 250000
    conv = 30000 if tier == "quick" else 300000
    for (n, es) in FAST_LARGE:
        for name, exe in builds:
            for s_ in range(pairs // shard):
                jobs.append(dict(exe=exe, args=["rnd", str(n), str(es), str(shard), "arith,order"], env={"VERIF_SEED": str(seed * 100 + s_)},
                                 label=f"{name} posit<{n},{es}> structured arith,order shard {s_}"))
            for s_ in range(max(1, conv // 100000)):
                jobs.append(dict(exe=exe, args=["rnd", str(n), str(es), str(min(conv, 100000)), "unary,conv"], env={"VERIF_SEED": str(seed * 100 + 50 + s_)},
                                 label=f"{name} posit<{n},{es}> structured unary,conv shard {s_}"))
    pure, shim = exes["h_capi_pure"], exes["h_capi_shim"]
    jobs.append(dict(exe=pure, args=["api", "8"], label="purec posit8 api"))
    jobs.append(dict(exe=pure, args=["exh", "8"], label="purec posit8 exhaustive"))
    for n in (4, 8, 16, 32, 64):
        jobs.append(dict(exe=shim, args=["api", str(n)], label=f"shim posit{n} api"))
    jobs.append(dict(exe=shim, args=["exh", "4"], label="shim posit4 exhaustive"))
    jobs.append(dict(exe=shim, args=["exh", "8"], label="shim posit8 exhaustive"))
    cs = 30000 if tier == "quick" else 300000
    for n in (16, 32, 64):
        for s_ in range(max(1, cs // 100000)):
            jobs.append(dict(exe=shim, args=["rnd", str(n), str(min(cs, 100000))], env={"VERIF_SEED": str(seed * 100 + 70 + s_)},
                             label=f"shim posit{n} structured shard {s_}"))
    jobs.sort(key=lambda j: 0 if ("structured" in j["label"] or "<8," in j["label"] or "posit8 exh" in j["label"]) else 1)
    return jobs


SQRT_POSIT_EXH = [(2,0),(3,0),(3,1),(4,0),(4,1),(4,2),(5,0),(5,1),(5,2),(5,3),(6,0),(6,1),(6,2),(6,3),(6,4),(7,0),(7,1),(7,2),(7,3),(7,4),(7,5),
                  (8,0),(8,1),(8,2),(8,3),(8,4),(8,5),(9,1),(10,2),(12,1),(14,1),(16,1),(16,2),(16,3)]
SQRT_POSIT_RND = [(20,1),(24,2),(32,2),(32,3)]
SQRT_FAST_EXH = [(2,0),(3,0),(3,1),(4,0),(8,0),(8,1),(8,2),(16,1),(16,2)]
SQRT_FIX_EXH = [(6,2),(8,4),(8,2),(10,5),(12,3),(16,8),(16,4),(16,11)]
SQRT_FIX_RND = [(24,10),(32,16),(32,8),(48,20)]
SQRT_INT_EXH = [8, 12, 16]
SQRT_INT_RND = [20, 32, 40, 64]


def sqrt_streams(tier, seed, exes):
    g, f = exes["h_sqrt"], exes["h_sqrt_fast"]
    jobs = []
    cnt = 40000 if tier == "quick" else 1000000
    for (n, es) in SQRT_POSIT_EXH:
        jobs.append(dict(exe=g, args=["posit", str(n), str(es), "exh"], label=f"sqrt posit<{n},{es}> exhaustive"))
    for (n, es) in SQRT_FAST_EXH:
        jobs.append(dict(exe=f, args=["posit", str(n), str(es), "exh"], label=f"sqrt fast posit<{n},{es}> exhaustive"))
    shards = 1 if tier == "quick" else 4
    for s_ in range(shards):
        env = {"VERIF_SEED": str(seed * 100 + s_)}
        for (n, es) in SQRT_POSIT_RND:
            jobs.append(dict(exe=g, args=["posit", str(n), str(es), "rnd", str(cnt // shards)], env=env, label=f"sqrt posit<{n},{es}> sampled shard {s_}"))
        jobs.append(dict(exe=f, args=["posit", "32", "2", "rnd", str(cnt // shards)], env=env, label=f"sqrt fast posit<32,2> sampled shard {s_}"))
        for (n, rb) in SQRT_FIX_RND:
            jobs.append(dict(exe=g, args=["fixpnt", str(n), str(rb), "rnd", str(cnt // shards // 2)], env=env, label=f"sqrt fixpnt<{n},{rb}> sampled shard {s_}"))
        for n in SQRT_INT_RND:
            jobs.append(dict(exe=g, args=["integer", str(n), "0", "rnd", str(cnt // shards // 4)], env=env, label=f"sqrt integer<{n}> sampled shard {s_}"))
    for (n, rb) in SQRT_FIX_EXH:
        jobs.append(dict(exe=g, args=["fixpnt", str(n), str(rb), "exh"], label=f"sqrt fixpnt<{n},{rb}> exhaustive"))
    for n in SQRT_INT_EXH:
        jobs.append(dict(exe=g, args=["integer", str(n), "0", "exh"], label=f"sqrt integer<{n}> exhaustive"))
    # the es = 0 configurations and the non-default build option POSIT_NATIVE_SQRT=1 (Newton iteration)
    for (n, es) in [(10, 0), (12, 0), (14, 0), (16, 0)]:
        jobs.append(dict(exe=g, args=["posit", str(n), str(es), "exh"], label=f"sqrt posit<{n},{es}> exhaustive"))
    if "h_sqrt_native" in exes:
        nat = exes["h_sqrt_native"]
        for (n, es) in [(8, 0), (8, 2), (10, 0), (12, 1), (14, 1), (16, 0), (16, 1), (16, 2)]:
            jobs.append(dict(exe=nat, args=["posit", str(n), str(es), "exh"], label=f"sqrt (POSIT_NATIVE_SQRT=1) posit<{n},{es}> exhaustive"))
        for (n, es) in [(20, 1), (32, 2)]:
            jobs.append(dict(exe=nat, args=["posit", str(n), str(es), "rnd", str(cnt // 4)], label=f"sqrt (POSIT_NATIVE_SQRT=1) posit<{n},{es}> sampled"))
    jobs.sort(key=lambda j: 0 if ("<16," in j["label"] or "sampled" in j["label"]) else 1)
    return jobs


def corpus_jobs(prop, path, exes):
    return [dict(file=path, label="corpus:" + os.path.basename(path))]


HOOK_COMMITS = []
NOT_YET = {}

PROPS = {
    "C01": dict(
        harness=["h_posit"],
        streams=posit_streams("arith", 2, 20000, 400000),
        level="proof",
        level_text="Lean theorems about the executable model of decode/module_add/sub/mul/div/convert_ and the Posit-Standard rounding "
                   "relation; the compiled headers are tied to the model by exhaustive (<=8 bit) and structured differential transcripts, "
                   "and every implementation output is judged by the executable rounding relation",
        level_note="trusted: Lean kernel, hand-written model (tied by correspondence only on explored inputs), g++ 12.2; "
                   "theorems proved so far are listed in the evidence file, unproved obligations are stated in DESIGN.md",
        explanation="posit + - * / reciprocal negate abs: Lean model of decode/module_*/convert_ vs. the Posit-Standard "
                    "rounding relation; correspondence by exhaustive enumeration of small configurations and structured sampling of large ones",
        assumptions=["the compiled code behaves like the model on inputs that were not explored"],
    ),
    "C11": dict(
        harness=["h_fast_g", "h_fast_f", "h_capi_pure", "h_capi_shim"],
        streams=fast_streams,
        level="proof",
        level_text="the same harness source is compiled without and with POSIT_FAST_SPECIALIZATION, and a C harness is linked once with "
                   "c_api/pure_c and once with the C shim; every transcript line is replayed through the Lean model of the GENERIC posit "
                   "(the spec of C11: bit-identical to generic) and through a Lean transcription of the fast routine where one exists; the "
                   "lookup tables of posit_2_0/3_0/3_1/4_0 are re-extracted from the headers on every run and compared entry by entry with "
                   "the generic model by kernel-checked `decide` theorems (a changed table breaks the proof module)",
        level_note="proof for the table-driven specialisations (finite, kernel-evaluated, regenerated tables); translation-validation strength "
                   "(hand model + exhaustive <=8-bit / structured 16,32-bit correspondence) for the integer-only word algorithms; the "
                   "65 536-pair statements for the 8-bit specialisations are established by the exhaustive transcript, not by a Lean theorem "
                   "(too large for `decide`, native_decide is not used); many recorded defects (D14) are listed as known findings",
        explanation="C11: generic vs fast specialisations 2_0 3_0 3_1 4_0 8_0 8_1 8_2 16_1 16_2 32_2, pure-C posit8 and the C shim "
                    "(4,8,16,32,64 bits): + - * / comparisons ++ -- reciprocal abs sqrt and every conversion from/to int, long, long long, "
                    "unsigned variants, float, double; exhaustive <=8 bits, structured pairs above.",
        assumptions=["the compiled code behaves like the model on inputs that were not explored",
                     "IEEE-754 binary32/binary64 hardware arithmetic and sqrt are correctly rounded",
                     "out-of-range float->int conversions return the x86 'integer indefinite' value (only reached by the fast read-back paths)"],
        trusted=["gen/extract_tables.py (regex over the headers) for the lookup tables"],
    ),
    "C17": dict(
        harness=["h_sqrt", "h_sqrt_fast", "h_sqrt_native"],
        streams=sqrt_streams,
        level="proof",
        level_text="sqrt of posit (tables regenerated from sqrt_tables.hpp, double detour, integer-only fast posit<16,1>/<32,2>), of fixpnt "
                   "(the native Babylonian iteration that a default build runs) and of integer (binary search) are modelled in Lean; every "
                   "implementation output is judged by an exact predicate decided by squaring (bracketing neighbours, Posit-Standard midpoint "
                   "for <=16 bits, monotone pairs, floor for integers); `decide` theorems over the regenerated tables, an unbounded loop-"
                   "invariant theorem for the integer square root",
        level_note="cfloat sqrt is not covered by this check (no cfloat model in this family); fixpnt sqrt is covered for the Modulo "
                   "arithmetic only; IEEE sqrt of the hardware is assumed correctly rounded and modelled exactly",
        explanation="C17: exhaustive over every non-negative encoding of every posit configuration <=16 bits (both builds), of 8 fixpnt "
                    "configurations <=16 bits and of integer<8|12|16>; structured samples above.",
        assumptions=["the compiled code behaves like the model on inputs that were not explored",
                     "std::sqrt(double) is correctly rounded"],
        trusted=["gen/extract_tables.py (regex over the headers) for the sqrt tables"],
    ),
}


# ---- filter: this module was a worker's monolithic props.py; expose only what the worker owns -------------------------
_OWNED = ['C11', 'C17']
_BASE_HARNESS = ['h_pconv', 'h_pconv_san', 'h_posit', 'h_posit_san', 'h_quire', 'h_quire_san', 'h_threads', 'h_threads_tsan']
HARNESS = {k: v for k, v in HARNESS.items() if k not in _BASE_HARNESS}
CONTRIB = {k: v for k, v in PROPS.items() if k in _OWNED}
if "replay_jobs" in globals():
    _rj = replay_jobs
    def replay_jobs(prop, path, exes):
        return _rj(prop, path, exes) if prop in _OWNED else []
