"""props_d/intfix.py — generated from worker `intfix`'s props.py by merge_worker.py"""
"""props.py — per-property configuration of check.py: harness TUs, streams per tier, proof modules."""
import os

HARNESS = {
    "h_posit": dict(src="h_posit.cpp"),
    # integer / fixpnt / blockbinary: one TU per block type (parallel compilation)
    "h_integer_u8": dict(src="h_integer.cpp", flags=["-DUV_BT=8"]),
    "h_integer_u16": dict(src="h_integer.cpp", flags=["-DUV_BT=16"]),
    "h_integer_u32": dict(src="h_integer.cpp", flags=["-DUV_BT=32"]),
    "h_integer_u64": dict(src="h_integer.cpp", flags=["-DUV_BT=64"]),
    "h_fixpnt_u8": dict(src="h_fixpnt.cpp", flags=["-DUV_BT=8"]),
    "h_fixpnt_u16": dict(src="h_fixpnt.cpp", flags=["-DUV_BT=16"]),
    "h_fixpnt_u32": dict(src="h_fixpnt.cpp", flags=["-DUV_BT=32"]),
    "h_blocks_int": dict(src="h_blocks.cpp", flags=["-DUV_PART=1"]),
    "h_blocks_bb": dict(src="h_blocks.cpp", flags=["-DUV_PART=2"]),
    "h_blocks_fix": dict(src="h_blocks.cpp", flags=["-DUV_PART=3"]),
}

POSIT_SMALL = [(n, es) for n in range(2, 9) for es in range(0, 6) if es <= n - 2 or (n, es) in ((2, 0),)]
POSIT_SMALL = [(n, es) for (n, es) in POSIT_SMALL if (n, es) in {
    (2,0),(3,0),(3,1),(4,0),(4,1),(4,2),(5,0),(5,1),(5,2),(5,3),(6,0),(6,1),(6,2),(6,3),(6,4),
    (7,0),(7,1),(7,2),(7,3),(7,4),(7,5),(8,0),(8,1),(8,2),(8,3),(8,4),(8,5)}]
POSIT_LARGE = [(9,1),(10,2),(12,1),(16,1),(16,2),(20,1),(24,2),(32,2),(32,3),(48,2),(64,3),(64,2)]


def rotate(lst, seed, k):
    """deterministic rotating subset of size k chosen from the seed"""
    if k >= len(lst):
        return list(lst)
    start = (seed * 7) % len(lst)
    return [lst[(start + i) % len(lst)] for i in range(k)]


def posit_streams(ops, quick_exh8, quick_rnd, thorough_rnd):
    def f(tier, seed, exes):
        exe = exes["h_posit"]
        jobs = []
        small = [c for c in POSIT_SMALL if c[0] <= 7]
        eight = [c for c in POSIT_SMALL if c[0] == 8]
        if tier == "quick":
            cfgs = small + rotate(eight, seed, quick_exh8)
        else:
            cfgs = small + eight
        for (n, es) in cfgs:
            jobs.append(dict(exe=exe, args=["exh", str(n), str(es), "0", ops], label=f"posit<{n},{es}> exhaustive {ops}"))
        cnt = quick_rnd if tier == "quick" else thorough_rnd
        for (n, es) in POSIT_LARGE:
            # split large sample counts into shards with distinct seeds so that all cores are used
            shards = 1 if tier == "quick" else 4
            for s in range(shards):
                jobs.append(dict(exe=exe, args=["rnd", str(n), str(es), str(cnt // shards), ops],
                                 env={"VERIF_SEED": str(seed * 100 + s)}, label=f"posit<{n},{es}> structured {ops} shard {s}"))
        # longest jobs first
        jobs.sort(key=lambda j: 0 if "exhaustive" in j["label"] and "<8," in j["label"] else 1)
        return jobs
    return f


def corpus_jobs(prop, path, exes):
    return [dict(file=path, label="corpus:" + os.path.basename(path))]


# ---------------------------------------------------------------------------------------------
# C08 integer / C07 fixpnt / C12 block-type independence

INT_BTS = ["u8", "u16", "u32", "u64"]
INT_LARGE = [12, 15, 16, 17, 24, 31, 32, 33, 40, 63, 64, 65, 127, 128, 129]
# three and more full limbs of every type incl. uint64_t, and a partially filled fourth one (seeded change C12-3: a carry lost
# across an all-ones 64-bit limb shows only from the third limb on; 129 bits leave a single bit there)
INT_WIDE = [192, 200]


def integer_streams(quick_pairs, thorough_pairs, wide=False):
    def f(tier, seed, exes):
        jobs = []
        quick = tier == "quick"
        for bt in INT_BTS:
            exe = exes["h_integer_" + bt]
            for n in range(2, 9):
                jobs.append(dict(exe=exe, args=["exh", str(n), bt, "0", "all"], label=f"integer<{n},{bt}> exhaustive"))
        nine = rotate(INT_BTS, seed, 1) if quick else INT_BTS
        for bt in nine:
            jobs.append(dict(exe=exes["h_integer_" + bt], args=["exh", "9", bt, "0", "all"], label=f"integer<9,{bt}> exhaustive"))
        cnt = quick_pairs if quick else thorough_pairs
        shards = 1 if quick else 4
        for bt in INT_BTS:
            for n in INT_LARGE + (INT_WIDE if wide else []):
                # multi-block uint64_t: every operator except *= (known finding integer.u64.multiblock_mul: undefined behaviour, not called)
                ops = "nomul" if bt == "u64" and n > 64 else "all"
                if n in INT_WIDE:
                    ops = "nomulconv"  # + - / % shifts logic compare; conversion targets of 2n+3 bits exceed the transcript width
                for sh in range(shards):
                    jobs.append(dict(exe=exes["h_integer_" + bt], args=["rnd", str(n), bt, str(cnt // shards), ops],
                                     env={"VERIF_SEED": str(seed * 100 + sh)}, label=f"integer<{n},{bt}> structured shard {sh}"))
        jobs.sort(key=lambda j: 0 if "<9," in j["label"] else (1 if "<8," in j["label"] else 2))
        return jobs
    return f


def integer_conv_streams(quick_cnt, thorough_cnt):
    """C15 clause integer<n1> -> integer<n2> (converting constructor: bitcopy + sign extension) and the native conversions:
    the `conv` opset of h_integer — every value of the sizes <= 9 bits into n+1, n-1, n+8, 2n+3, (n+1)/2 bits on every limb type,
    structured operands of the larger sizes (targets with one, two and more limbs above the source's top limb)"""
    def f(tier, seed, exes):
        jobs = []
        quick = tier == "quick"
        for bt in INT_BTS:
            exe = exes["h_integer_" + bt]
            for n in range(2, 10):
                jobs.append(dict(exe=exe, args=["exh", str(n), bt, "0", "conv"], label=f"integer<{n},{bt}> every value, size conversions"))
            for n in INT_LARGE:
                jobs.append(dict(exe=exe, args=["rnd", str(n), bt, str(quick_cnt if quick else thorough_cnt), "conv"],
                                 env={"VERIF_SEED": str(seed * 100)}, label=f"integer<{n},{bt}> structured, size conversions"))
        return jobs
    return f


FIX_BTS = ["u8", "u16", "u32"]
FIX_SMALL = [(n, r) for n in range(2, 9) for r in range(0, n + 1)] + [(9, 0), (9, 4), (9, 9)]
FIX_LARGE = [(12, 4), (16, 8), (17, 8), (24, 12), (32, 16), (33, 16), (40, 20), (64, 32),
             # wider than 64 bits: divisors and dividends longer than a machine word (near-tie quotients with > 64-bit divisors)
             (72, 8), (80, 8), (80, 40), (96, 24), (128, 64)]


def fixpnt_streams(quick_pairs, thorough_pairs):
    def f(tier, seed, exes):
        jobs = []
        quick = tier == "quick"
        combos = [(n, r, m, bt) for (n, r) in FIX_SMALL for m in "MS" for bt in FIX_BTS]
        if quick:
            small = [c for c in combos if c[0] <= 6]
            chosen = small + rotate([c for c in combos if c[0] == 7], seed, 8) + rotate([c for c in combos if c[0] == 8], seed, 4) \
                + rotate([c for c in combos if c[0] == 9], seed, 1)
        else:
            chosen = combos
        for (n, r, m, bt) in chosen:
            jobs.append(dict(exe=exes["h_fixpnt_" + bt], args=["exh", str(n), str(r), m, bt, "0", "all"],
                             label=f"fixpnt<{n},{r},{m},{bt}> exhaustive"))
        cnt = quick_pairs if quick else thorough_pairs
        shards = 1 if quick else 4
        for (n, r) in FIX_LARGE:
            for m in "MS":
                for bt in FIX_BTS:
                    c = cnt if n <= 33 else max(200, cnt // 4)      # the 4n+2r-bit long division dominates the model's time
                    for sh in range(shards):
                        jobs.append(dict(exe=exes["h_fixpnt_" + bt], args=["rnd", str(n), str(r), m, bt, str(c // shards), "all"],
                                         env={"VERIF_SEED": str(seed * 100 + sh)}, label=f"fixpnt<{n},{r},{m},{bt}> structured shard {sh}"))
        jobs.sort(key=lambda j: 0 if ("<9," in j["label"] or "<64," in j["label"]) else (1 if "<8," in j["label"] or "<40," in j["label"] else 2))
        return jobs
    return f


BLK_INT = [7, 8, 9, 15, 16, 17, 23, 24, 25, 31, 32, 33, 47, 48, 49, 63, 64, 65, 95, 96, 97, 127, 128, 129]
BLK_BB = [7, 8, 9, 15, 16, 17, 23, 24, 25, 31, 32, 33, 47, 48, 49, 63, 64, 65]
BLK_FIX = [(7, 3), (8, 4), (9, 4), (15, 7), (16, 8), (17, 8), (23, 11), (24, 12), (25, 12), (31, 15), (32, 16), (33, 16),
           (47, 23), (48, 24), (49, 24), (63, 31), (64, 32), (65, 32)]


def blk_streams(quick_iters, thorough_iters):
    def f(tier, seed, exes):
        jobs = []
        cnt = quick_iters if tier == "quick" else thorough_iters
        shards = 1 if tier == "quick" else 2
        for sh in range(shards):
            env = {"VERIF_SEED": str(seed * 100 + sh)}
            for n in BLK_INT:
                jobs.append(dict(exe=exes["h_blocks_int"], args=["integer", str(n), str(cnt // shards)], env=env,
                                 label=f"blk integer<{n}> u8/u16/u32{'/u64' if n <= 64 else ''} shard {sh}"))
            for n in BLK_BB:
                jobs.append(dict(exe=exes["h_blocks_bb"], args=["bb", str(n), str(cnt // shards)], env=env,
                                 label=f"blk blockbinary<{n}> u8/u16/u32{'/u64' if n <= 32 else ''} shard {sh}"))
            for (n, r) in BLK_FIX:
                for m in "MS":
                    c = cnt if n <= 33 else max(100, cnt // 4)
                    jobs.append(dict(exe=exes["h_blocks_fix"], args=["fixpnt", str(n), str(r), m, str(c // shards)], env=env,
                                     label=f"blk fixpnt<{n},{r},{m}> u8/u16/u32 shard {sh}"))
        jobs.sort(key=lambda j: 0 if "fixpnt<6" in j["label"] or "fixpnt<4" in j["label"] else 1)
        return jobs
    return f


HOOK_COMMITS = []
NOT_YET = {}

PROPS = {
    "C01": dict(
        harness=["h_posit"],
        streams=posit_streams("arith", 2, 20000, 400000),
        level="proof",
        level_text="Lean theorems about the executable model of decode/module_add/sub/mul/div/convert_ and the Posit-Standard rounding "
                   "relation; the compiled headers are tied to the model by exhaustive (<=8 bit) and structured differential transcripts, "
                   "and every implementation output is judged by the executable rounding relation",
        level_note="trusted: Lean kernel, hand-written model (tied by correspondence only on explored inputs), g++ 12.2; "
                   "theorems proved so far are listed in the evidence file, unproved obligations are stated in DESIGN.md",
        explanation="posit + - * / reciprocal negate abs: Lean model of decode/module_*/convert_ vs. the Posit-Standard "
                    "rounding relation; correspondence by exhaustive enumeration of small configurations and structured sampling of large ones",
        assumptions=["the compiled code behaves like the model on inputs that were not explored"],
    ),
    "C07": dict(
        harness=["h_fixpnt_u8", "h_fixpnt_u16", "h_fixpnt_u32"],
        streams=fixpnt_streams(4000, 100000),
        level="proof",
        level_text="Lean theorems (for every nbits, rbits and limb width) about the limb-level model of blockbinary "
                   "add/sub/uradd/ursub/urmul2/roundingMode/shift/longdivision and the fixpnt operators built on them, against the "
                   "Int/Rat specification (exact sum, RNE of a*b/2^rbits and a*2^rbits/b, then wrap or clamp); the compiled headers "
                   "are tied to the model by exhaustive (<=9 bit, every rbits, both modes, u8/u16/u32) and structured transcripts and "
                   "every implementation output is judged by the executable specification",
        level_note="trusted: Lean kernel, hand-written limb model (tied by correspondence only on explored inputs), g++ 12.2; "
                   "all of add/sub/mul/div(Modulo)/negate/++/--/comparisons are proved Model = Spec for every nbits, rbits and limb width "
                   "(C07_add, C07_sub, C07_mul, C07_div_modulo, C07_neg, C07_inc_dec, C07_cmp, C07_saturate_never_wraps_*); unary minus is "
                   "the exact negation wrapped (Modulo) or clamped (Saturate) since the repair of operator- (C07_neg for both modes); "
                   "known finding with negation witness: Saturate operator/= is a stub (D11, C07_div_saturate_counterexample)",
        explanation="fixpnt + - * / negate ++ -- comparisons in Modulo and Saturate mode on u8/u16/u32: limb-list model of the "
                    "blockbinary loops vs. exact integer/rational arithmetic with wrap or clamp",
        assumptions=["the compiled code behaves like the model on inputs that were not explored",
                     "division by zero is outside the property (the harness never divides by zero)"],
    ),
    "C08": dict(
        harness=["h_integer_u8", "h_integer_u16", "h_integer_u32", "h_integer_u64"],
        streams=integer_streams(4000, 100000, wide=True),
        level="proof",
        level_text="Lean theorems (for every nbits and limb width) about the limb-level model of integer<nbits,bt> "
                   "(+= carry chain with MSU mask incl. the wrap-around carry of uint64_t blocks, -=, schoolbook *=, idiv long division and the native fast path, <<= >>= block+bit "
                   "shifts with sign extension, bitwise operators, converting constructor, native conversions) against the ring "
                   "Z/2^nbits on Int; the compiled headers are tied to the model by exhaustive (<=9 bit, u8/u16/u32/u64, every shift "
                   "count in [-nbits-1, nbits+1]) and structured transcripts (up to 129 bits on all four block types, divisor -1 and "
                   "all-ones carry chains sent explicitly) and every output is judged by the executable specification",
        level_note="trusted: Lean kernel, hand-written limb model (tied by correspondence only on explored inputs), g++ 12.2; "
                   "every clause is proved Model = Spec for every nbits and every limb width, multi-block uint64_t included (C08_add/sub/neg/"
                   "inc/dec/bitwise/cmp/shl/divrem/convert/from_native/to_native; right shifts: C08_shr_partial / C08_shl_negative_count_partial "
                   "for counts < nbits or non-negative values, C08_shr_count_ge_nbits = the result is 0 from nbits on; known finding D8 with "
                   "negation witness C08_shr_counterexample: a negative value shifted right by >= nbits gives 0, not -1 (the repair 11c577e was "
                   "withdrawn: the library test static/integer/binary/logic/shift_right.cpp expects maxneg >> nbits == 0); "
                   "C08_add and everything built on it for uint64_t blocks since the repair of the += carry chain, C08_divrem for every "
                   "operand pair with b != 0 since the native fast path negates instead of dividing by -1); C08_mul for every limb width "
                   "whose partial products fit the 64-bit accumulator (C08_MulSupported); known finding without stream: multi-block uint64_t "
                   "operator*= (undefined behaviour `segment >>= 64`, integer.u64.multiblock_mul) is not called",
        explanation="integer + - * / % << >> & | ^ ~ unary minus ++ -- comparisons, size conversion, native conversions on "
                    "u8/u16/u32/u64: limb-list model vs. two's-complement ring arithmetic on Int",
        assumptions=["the compiled code behaves like the model on inputs that were not explored",
                     "division by zero is outside the property (the harness never divides by zero)"],
    ),
    "C12": dict(
        harness=["h_blocks_int", "h_blocks_bb", "h_blocks_fix"],
        streams=blk_streams(400, 12000),
        level="proof",
        level_text="the limb model takes the block width as a parameter; the Lean theorems state the value of every modelled "
                   "operator independently of the width, so block-type independence is a corollary (C12_blocktype_independent_*); the "
                   "compiled headers are instantiated with u8/u16/u32/(u64) at nbits = k*bits(bt)+{-1,0,+1} on identical operand "
                   "streams, every instantiation is compared with the width-parametric model and the raw storage of all instantiations "
                   "must be identical",
        level_note="covers blockbinary, integer and fixpnt only (cfloat, lns, areal, einteger belong to other harnesses); trusted: Lean "
                   "kernel, hand-written limb model, g++ 12.2; blockbinary/fixpnt operator<<= is block-type independent since the repair "
                   "fd17b6d of D7 (C12_bb_shl); integer and blockbinary / and % are block-type independent for every operand pair since the "
                   "exact-fit native fast path no longer traps on most negative / -1 (C12_blocktype_independent_integer_divrem, "
                   "C12_blocktype_independent_blockbinary_muldiv without trap hypothesis); no known finding left",
        explanation="same operation streams on integer / blockbinary / fixpnt for every block type; raw storage compared across "
                    "instantiations and with the limb model",
        assumptions=["the compiled code behaves like the model on inputs that were not explored"],
    ),
}


PROPS["C15"] = dict(harness=["h_integer_" + bt for bt in INT_BTS], streams=integer_conv_streams(20000, 400000),
                    proof_modules=["UVerifProofs.Props.C08"])

# ---- filter: this module was a worker's monolithic props.py; expose only what the worker owns -------------------------
_OWNED = ['C07', 'C08', 'C12', 'C15']
_BASE_HARNESS = ['h_pconv', 'h_pconv_san', 'h_posit', 'h_posit_san', 'h_quire', 'h_quire_san', 'h_threads', 'h_threads_tsan']
HARNESS = {k: v for k, v in HARNESS.items() if k not in _BASE_HARNESS}
CONTRIB = {k: v for k, v in PROPS.items() if k in _OWNED}
if "replay_jobs" in globals():
    _rj = replay_jobs
    def replay_jobs(prop, path, exes):
        return _rj(prop, path, exes) if prop in _OWNED else []

C20_HARNESS = {"h_integer_u16_san": dict(src="h_integer.cpp", flags=["-DUV_BT=16"] + SAN), "h_fixpnt_u8_san": dict(src="h_fixpnt.cpp", flags=["-DUV_BT=8"] + SAN)}
C20_MAP = {"h_integer_u16": "h_integer_u16_san", "h_fixpnt_u8": "h_fixpnt_u8_san"}
C20_STREAMS = [integer_streams(800, 20000), fixpnt_streams(800, 20000)]
