"""props_d/lnsareal.py — generated from worker `lnsareal`'s props.py by merge_worker.py"""
"""props.py — per-property configuration of check.py: harness TUs, streams per tier, proof modules."""
import os

HARNESS = {
    "h_posit": dict(src="h_posit.cpp"),
    # lns / areal: one executable per block type (same source, -DUV_BT selects uint8_t / uint16_t / uint32_t)
    "h_lns_u8": dict(src="h_lns.cpp", flags=["-DUV_BT=8"]),
    "h_lns_u16": dict(src="h_lns.cpp", flags=["-DUV_BT=16"]),
    "h_lns_u32": dict(src="h_lns.cpp", flags=["-DUV_BT=32"]),
    "h_areal_u8": dict(src="h_areal.cpp", flags=["-DUV_BT=8"]),
    "h_areal_u16": dict(src="h_areal.cpp", flags=["-DUV_BT=16"]),
    "h_areal_u32": dict(src="h_areal.cpp", flags=["-DUV_BT=32"]),
}

POSIT_SMALL = [(n, es) for n in range(2, 9) for es in range(0, 6) if es <= n - 2 or (n, es) in ((2, 0),)]
POSIT_SMALL = [(n, es) for (n, es) in POSIT_SMALL if (n, es) in {
    (2,0),(3,0),(3,1),(4,0),(4,1),(4,2),(5,0),(5,1),(5,2),(5,3),(6,0),(6,1),(6,2),(6,3),(6,4),
    (7,0),(7,1),(7,2),(7,3),(7,4),(7,5),(8,0),(8,1),(8,2),(8,3),(8,4),(8,5)}]
POSIT_LARGE = [(9,1),(10,2),(12,1),(16,1),(16,2),(20,1),(24,2),(32,2),(32,3),(48,2),(64,3),(64,2)]


def rotate(lst, seed, k):
    """deterministic rotating subset of size k chosen from the seed"""
    if k >= len(lst):
        return list(lst)
    start = (seed * 7) % len(lst)
    return [lst[(start + i) % len(lst)] for i in range(k)]


def posit_streams(ops, quick_exh8, quick_rnd, thorough_rnd):
    def f(tier, seed, exes):
        exe = exes["h_posit"]
        jobs = []
        small = [c for c in POSIT_SMALL if c[0] <= 7]
        eight = [c for c in POSIT_SMALL if c[0] == 8]
        if tier == "quick":
            cfgs = small + rotate(eight, seed, quick_exh8)
        else:
            cfgs = small + eight
        for (n, es) in cfgs:
            jobs.append(dict(exe=exe, args=["exh", str(n), str(es), "0", ops], label=f"posit<{n},{es}> exhaustive {ops}"))
        cnt = quick_rnd if tier == "quick" else thorough_rnd
        for (n, es) in POSIT_LARGE:
            # split large sample counts into shards with distinct seeds so that all cores are used
            shards = 1 if tier == "quick" else 4
            for s in range(shards):
                jobs.append(dict(exe=exe, args=["rnd", str(n), str(es), str(cnt // shards), ops],
                                 env={"VERIF_SEED": str(seed * 100 + s)}, label=f"posit<{n},{es}> structured {ops} shard {s}"))
        # longest jobs first
        jobs.sort(key=lambda j: 0 if "exhaustive" in j["label"] and "<8," in j["label"] else 1)
        return jobs
    return f


# ---------------------------------------------------------------------------------------------- lns (C09)
LNS_SMALL = [(n, r) for n in range(2, 10) for r in range(0, n)]
LNS_LARGE = [(16, 8), (17, 8), (24, 12), (25, 12), (32, 16), (12, 4), (16, 5)]
BTS = ["u8", "u16", "u32"]


def lns_streams(ops, quick_rnd, thorough_rnd):
    def f(tier, seed, exes):
        jobs = []

        def exh(n, r, beh, bt, split=False):
            for o in (["muldiv", "addsub"] if (split and ops == "arith") else [ops]):
                jobs.append(dict(exe=exes["h_lns_" + bt], args=["exh", str(n), str(r), beh, "0", o],
                                 label=f"lns<{n},{r},{bt},{beh}> exhaustive {o}", cost=4 ** n))
        if tier == "quick":
            for (n, r) in LNS_SMALL:
                for beh in "SW":
                    if n <= 6:
                        for bt in BTS:
                            exh(n, r, beh, bt)
                    elif n == 7:
                        exh(n, r, beh, BTS[(seed + r) % 3])
            eight = [(8, r, beh, bt) for r in range(8) for beh in "SW" for bt in BTS]
            nine = [(9, r, beh, bt) for r in range(9) for beh in "SW" for bt in BTS]
            for c in rotate(eight, seed, 6):
                exh(*c, split=True)
            picked = rotate(nine, seed * 5 + 1, 2)
            # always one two-block instantiation (uint8_t, 9 bits) of each behaviour family member picked
            picked = [(n, r, beh, "u8") if i == 0 else (n, r, beh, bt) for i, (n, r, beh, bt) in enumerate(picked)]
            for c in picked:
                exh(*c, split=True)
        else:
            for (n, r) in LNS_SMALL:
                for beh in "SW":
                    for bt in BTS:
                        exh(n, r, beh, bt, split=(n >= 8))
        cnt = quick_rnd if tier == "quick" else thorough_rnd
        shards = 1 if tier == "quick" else 4
        for (n, r) in LNS_LARGE:
            for beh in "SW":
                for bt in BTS:
                    for sh in range(shards):
                        jobs.append(dict(exe=exes["h_lns_" + bt], args=["rnd", str(n), str(r), beh, str(cnt // shards), ops],
                                         env={"VERIF_SEED": str(seed * 100 + sh)},
                                         label=f"lns<{n},{r},{bt},{beh}> structured {ops} shard {sh}", cost=cnt // shards * 4))
        jobs.sort(key=lambda j: -j.get("cost", 0))
        return jobs
    return f


# ---------------------------------------------------------------------------------------------- areal (C18, C04 clause)
AREAL_SMALL = [(n, es) for n in range(4, 13) for es in range(1, n - 2)]
AREAL_LARGE = [(16, 5), (16, 8), (17, 5), (20, 8), (24, 8), (24, 5), (32, 8), (32, 11), (33, 8), (48, 11), (64, 11),
               # targets as wide as / wider than the source fraction, float / double subnormals in range (D13 repairs)
               (27, 2), (28, 2), (32, 5), (32, 2), (59, 5), (60, 5), (64, 8), (64, 2), (20, 12), (40, 12), (16, 10),
               # more than 52 fraction bits: read back into long double (told lines)
               (62, 7), (64, 10)]


def areal_streams(ops, quick_rnd, thorough_rnd):
    """ops = assign (C18) | native (C04 areal clause; to_native<double> for es <= 10, to_native<float> for es <= 7)"""
    def f(tier, seed, exes):
        jobs = []
        small = [c for c in AREAL_SMALL if ops != "native" or c[1] <= 10]
        large = [c for c in AREAL_LARGE if ops != "native" or c[1] <= 10]
        for (n, es) in small:
            if tier == "quick":
                bts = BTS if n <= 9 else [BTS[(seed + n + es) % 3]]
                if n == 12 and (n, es) not in rotate([c for c in small if c[0] == 12], seed, 4):
                    continue
            else:
                bts = BTS
            for bt in bts:
                jobs.append(dict(exe=exes["h_areal_" + bt], args=["exh", str(n), str(es), "0", ops],
                                 label=f"areal<{n},{es},{bt}> every target encoding {ops}", cost=2 ** n))
        cnt = quick_rnd if tier == "quick" else thorough_rnd
        for (n, es) in large:
            for bt in BTS:
                jobs.append(dict(exe=exes["h_areal_" + bt], args=["rnd", str(n), str(es), str(cnt), ops],
                                 env={"VERIF_SEED": str(seed * 100)},
                                 label=f"areal<{n},{es},{bt}> sampled targets {ops}", cost=cnt * 30))
        jobs.sort(key=lambda j: -j.get("cost", 0))
        return jobs
    return f


def corpus_jobs(prop, path, exes):
    return [dict(file=path, label="corpus:" + os.path.basename(path))]


HOOK_COMMITS = []
NOT_YET = {}

PROPS = {
    "C01": dict(
        harness=["h_posit"],
        streams=posit_streams("arith", 2, 20000, 400000),
        level="proof",
        level_text="Lean theorems about the executable model of decode/module_add/sub/mul/div/convert_ and the Posit-Standard rounding "
                   "relation; the compiled headers are tied to the model by exhaustive (<=8 bit) and structured differential transcripts, "
                   "and every implementation output is judged by the executable rounding relation",
        level_note="trusted: Lean kernel, hand-written model (tied by correspondence only on explored inputs), g++ 12.2; "
                   "theorems proved so far are listed in the evidence file, unproved obligations are stated in DESIGN.md",
        explanation="posit + - * / reciprocal negate abs: Lean model of decode/module_*/convert_ vs. the Posit-Standard "
                    "rounding relation; correspondence by exhaustive enumeration of small configurations and structured sampling of large ones",
        assumptions=["the compiled code behaves like the model on inputs that were not explored"],
    ),
    "C09": dict(
        harness=["h_lns_u8", "h_lns_u16", "h_lns_u32"],
        streams=lns_streams("arith", 5000, 100000),
        level="proof",
        level_text="Lean theorems (all nbits, rbits, block widths, both behaviours) that the model of lns operator*=, operator/= "
                   "(uradd/ursub, clamp compare, Wrapping `lexp += rexp` / `lexp -= rexp`) computes the exact integer exponent "
                   "sum/difference with clamp / wrap semantics, zero absorbing, NaN propagating, sign product (Wrapping `/=` was "
                   "repaired in 848b03b, the full theorem C09_div_wrap is the obligation); "
                   "add/sub: the model of the double detour + convert_ieee754 takes the observed libm values "
                   "(pow, log2) as inputs and every implementation result is judged against the exact REAL sum by certified interval "
                   "arithmetic; correspondence exhaustive for every configuration <= 9 bits x {Saturating, Wrapping} x {u8,u16,u32}",
        level_note="trusted: Lean kernel, hand-written model tied by correspondence on explored inputs, g++ 12.2, libm pow/log2 "
                   "(their observed values are inputs of the add/sub model; pow is checked to be within 1 ulp on every line); "
                   "add/sub faithfulness is decided per line (spec predicate), not proved for all operands",
        explanation="lns * / exact in the log domain (proof), + - adjacent to the exact real result (spec predicate on every explored line); "
                    "known findings: Wrapping +/- out of range (D10), +/- outside binary64's range",
        assumptions=["the compiled code behaves like the model on inputs that were not explored",
                     "libm pow/log2 return the observed values deterministically (same argument, same result)"],
        trusted=["libm std::pow / std::log2 (observed values are model inputs; pow verified within 1 ulp per line)"],
    ),
    "C18": dict(
        harness=["h_areal_u8", "h_areal_u16", "h_areal_u32"],
        streams=areal_streams("assign", 150, 4000),
        level="proof",
        level_text="Lean theorems about the line-by-line model of areal::operator=(float/double) (after the repair of D13 in the library): "
                   "EVERY float / double bit pattern — finite normal, subnormal, +-0, +-inf, NaN with any payload, out of range, target fraction "
                   "narrower than, as wide as or wider than the source — is enclosed by its conversion (C18_encloses_full, C18_encloses_full_f64: "
                   "every es >= 1, nbits >= es+3, nbits <= 32 resp. 64, block types u8/u16/u32/u64); correspondence: sources generated from "
                   "every exact target encoding of every configuration <= 12 bits on u8/u16/u32 (exact, +-1 source ulp, single dropped bit, "
                   "between, out of range, subnormal sources, NaN payloads) and sampled ones up to 64 bits incl. targets wider than the source",
        level_note="trusted: Lean kernel, hand-written model tied by correspondence on explored inputs, g++ 12.2; operator=(float) into "
                   "nbits > 32 (the code assembles the encoding in a uint32_t) is outside the theorems and is not executed",
        explanation="areal conversion from float/double encloses the source (ubit semantics); spec predicate `encloses` on the exact rational "
                    "value of the source; the five D13 input regions (exponent == MAX_EXP, top-binade all-ones fraction, NaN payloads, "
                    "subnormal sources, targets not narrower than the source) were repaired by fix: commits and are no known findings any more",
        assumptions=["the compiled code behaves like the model on inputs that were not explored"],
    ),
    # C04 — ONLY the areal clause (to_native = value of the encoding with the ubit ignored, and back). The posit / cfloat /
    # fixpnt / integer / dd clauses belong to other families: merge `areal_streams("native", …)`, the three h_areal_* harnesses and
    # the proof module UVerifProofs.Props.C04Areal into the shared C04 entry.
    "C04": dict(
        harness=["h_areal_u8", "h_areal_u16", "h_areal_u32"],
        streams=areal_streams("native", 300, 20000),
        proof_modules=["UVerifProofs.Props.C04Areal"],
        level="proof",
        level_text="(areal clause only) Lean theorem: the model of areal::to_native returns the value of the encoding with the uncertainty "
                   "bit ignored for every configuration with es <= 7 and fbits <= 52, and converting back gives the encoding with the ubit "
                   "cleared (fbits <= 52; +-inf, quiet and signalling NaN round-trip as well); correspondence on every encoding of every "
                   "configuration <= 12 bits (to_native<double> for es <= 10, to_native<float> for es <= 7, and conversion back)",
        level_note="areal to_native used to execute `1ull << -exponent` with a count >= 64 for es >= 8 (undefined behaviour, repaired: those "
                   "exponents take the ipow branch now); es >= 11 leaves binary64's range and is not executed; trusted: Lean kernel, model "
                   "tied by correspondence, g++ 12.2",
        explanation="areal read-back: to_native is the lower bound of the encoded interval; converting back gives the encoding with the ubit cleared",
        assumptions=["the compiled code behaves like the model on inputs that were not explored"],
    ),
}


# ---- filter: this module was a worker's monolithic props.py; expose only what the worker owns -------------------------
_OWNED = ['C09', 'C18', 'C04', 'C06']
_BASE_HARNESS = ['h_pconv', 'h_pconv_san', 'h_posit', 'h_posit_san', 'h_quire', 'h_quire_san', 'h_threads', 'h_threads_tsan']
HARNESS = {k: v for k, v in HARNESS.items() if k not in _BASE_HARNESS}
CONTRIB = {k: v for k, v in PROPS.items() if k in _OWNED}
if "replay_jobs" in globals():
    _rj = replay_jobs
    def replay_jobs(prop, path, exes):
        return _rj(prop, path, exes) if prop in _OWNED else []

XBT = [lns_streams("arith", 1500, 20000), areal_streams("assign", 60, 1500)]
XBT_HARNESS = ["h_lns_u8", "h_lns_u16", "h_lns_u32", "h_areal_u8", "h_areal_u16", "h_areal_u32"]

C20_HARNESS = {"h_lns_u16_san": dict(src="h_lns.cpp", flags=["-DUV_BT=16"] + SAN), "h_areal_u8_san": dict(src="h_areal.cpp", flags=["-DUV_BT=8"] + SAN)}
C20_MAP = {"h_lns_u16": "h_lns_u16_san", "h_areal_u8": "h_areal_u8_san"}
C20_STREAMS = [lns_streams("arith", 600, 20000), areal_streams("assign", 40, 2000), areal_streams("native", 60, 3000)]
