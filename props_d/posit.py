"""props_d/posit.py — posit, quire, posit conversions, C20 (owner: main session)."""
import os

HARNESS = {
    "h_posit": dict(src="h_posit.cpp"),
    "h_quire": dict(src="h_quire.cpp"),
    "h_pconv": dict(src="h_pconv.cpp"),
    "h_hist": dict(src="h_hist.cpp"),
    "h_hist_san": dict(src="h_hist.cpp", flags=SAN),
    "h_ub": dict(src="h_ub.cpp", flags=["-g", "-fsanitize=undefined", "-fno-sanitize-recover=all"]),
    "h_threads": dict(src="h_threads.cpp", flags=["-pthread"]),
    "h_threads_tsan": dict(src="h_threads.cpp", flags=["-pthread", "-g", "-fsanitize=thread"]),
    "h_posit_san": dict(src="h_posit.cpp", flags=SAN + ["-DUV_SAN_SMALL"]),
    "h_quire_san": dict(src="h_quire.cpp", flags=SAN),
    "h_pconv_san": dict(src="h_pconv.cpp", flags=SAN),
}

POSIT_SMALL = [(n, es) for n in range(2, 9) for es in range(0, 6) if es <= n - 2 or (n, es) in ((2, 0),)]
POSIT_SMALL = [(n, es) for (n, es) in POSIT_SMALL if (n, es) in {
    (2,0),(3,0),(3,1),(4,0),(4,1),(4,2),(5,0),(5,1),(5,2),(5,3),(6,0),(6,1),(6,2),(6,3),(6,4),
    (7,0),(7,1),(7,2),(7,3),(7,4),(7,5),(8,0),(8,1),(8,2),(8,3),(8,4),(8,5)}]
POSIT_LARGE = [(9,1),(10,2),(12,1),(16,1),(16,2),(20,1),(24,2),(32,2),(32,3),(48,2),(64,3),(64,2)]


def posit_streams(ops, quick_exh8, quick_rnd, thorough_rnd):
    def f(tier, seed, exes):
        exe = exes["h_posit"]
        jobs = []
        small = [c for c in POSIT_SMALL if c[0] <= 7]
        eight = [c for c in POSIT_SMALL if c[0] == 8]
        if tier == "quick":
            cfgs = small + rotate(eight, seed, quick_exh8)
        else:
            cfgs = small + eight
        for (n, es) in cfgs:
            jobs.append(dict(exe=exe, args=["exh", str(n), str(es), "0", ops], label=f"posit<{n},{es}> exhaustive {ops}"))
        cnt = quick_rnd if tier == "quick" else thorough_rnd
        for (n, es) in POSIT_LARGE:
            # split large sample counts into shards with distinct seeds so that all cores are used
            shards = 1 if tier == "quick" else 4
            for s in range(shards):
                jobs.append(dict(exe=exe, args=["rnd", str(n), str(es), str(cnt // shards), ops],
                                 env={"VERIF_SEED": str(seed * 100 + s)}, label=f"posit<{n},{es}> structured {ops} shard {s}"))
        # longest jobs first
        jobs.sort(key=lambda j: 0 if "exhaustive" in j["label"] and "<8," in j["label"] else 1)
        return jobs
    return f



QUIRE_CFGS = [(4,0,2),(5,1,3),(6,1,3),(6,2,2),(8,0,4),(8,1,6),(8,2,4),(8,1,30),(12,1,5),(16,1,10),(16,2,30),(32,2,30)]
FDP_CFGS = [(8,0,20),(8,1,20),(8,2,20),(16,1,20),(16,2,20),(32,2,20)]


def quire_streams(tier, seed, exes):
    exe = exes["h_quire"]
    jobs = []
    nh, np_, nf = (400, 1500, 3000) if tier == "quick" else (12000, 40000, 80000)
    shards = 1 if tier == "quick" else 4
    for (n, es, c) in QUIRE_CFGS:
        for s in range(shards):
            env = {"VERIF_SEED": str(seed * 100 + s)}
            jobs.append(dict(exe=exe, args=["hist", str(n), str(es), str(c), str(nh // shards)], env=env, label=f"quire<{n},{es},{c}> histories shard {s}"))
            jobs.append(dict(exe=exe, args=["part", str(n), str(es), str(c), str(np_ // shards)], env=env, label=f"quire<{n},{es},{c}> partitions shard {s}"))
    for (n, es, c) in FDP_CFGS:
        for s in range(shards):
            env = {"VERIF_SEED": str(seed * 100 + s)}
            jobs.append(dict(exe=exe, args=["fdp", str(n), str(es), str(c), str(nf // shards)], env=env, label=f"fdp posit<{n},{es}> shard {s}"))
    return jobs


def replay_jobs(prop, path, exes):
    """re-run the inputs of a replay / corpus file through the CURRENT headers (posit lines only)"""
    if "h_posit" in exes and prop in ("C01", "C03", "C04", "C06"):
        return [dict(exe=exes["h_posit"], args=["file", path], label="posit re-run of " + os.path.basename(path))]
    return []


CONTRIB = {
    "C01": dict(
        harness=["h_posit"],
        streams=posit_streams("arith", 2, 20000, 400000),
        level="proof",
        level_text="Lean theorems about the executable model of decode/module_add/sub/mul/div/convert_ and the Posit-Standard rounding "
                   "relation; the compiled headers are tied to the model by exhaustive (<=8 bit) and structured differential transcripts, "
                   "and every implementation output is judged by the executable rounding relation",
        level_note="trusted: Lean kernel, hand-written model (tied by correspondence only on explored inputs), g++ 12.2; "
                   "theorems proved so far are listed in the evidence file, unproved obligations are stated in DESIGN.md",
        explanation="posit + - * / reciprocal negate abs: Lean model of decode/module_*/convert_ vs. the Posit-Standard "
                    "rounding relation; correspondence by exhaustive enumeration of small configurations and structured sampling of large ones",
        assumptions=["the compiled code behaves like the model on inputs that were not explored"],
    ),
    "C05": dict(
        harness=["h_quire"],
        streams=quire_streams,
        level="proof",
        level_text="refinement proof in Lean: the three-segment ripple-carry/borrow accumulator of the model equals an exact integer "
                   "accumulator for every history that stays within capacity (induction over histories of any length), hence order- and "
                   "partition-independence; the compiled quire is tied to the model by differential histories with the state compared after every step",
        level_note="trusted: Lean kernel, hand-written model of quire.hpp (segment-level, not bit-loop-level), g++; the final rounding "
                   "inherits the status of C01's convert_ theorem",
        explanation="quire += / -= of posits and exact products, quire += quire, fdp: model state (sign, lower, upper, capacity) and rounded "
                    "posit compared after EVERY step of random histories with cancellations, sign flips and carries into the capacity segment",
        assumptions=["the compiled code behaves like the model on histories that were not explored"],
    ),
    "C03": dict(
        harness=["h_posit"],
        streams=posit_streams("from", 2, 1500, 40000),
        proof_modules=["UVerifProofs.Props.C03"],
        level="proof",
        level_text="Lean model of value<fbits>::operator=(native) / convert_ieee754 / convert_ and the rounding relation of the target; "
                   "sources are generated from the target lattice (every value, every (n+1)-bit midpoint, +-1 source ulp) so that each rounding boundary is hit",
        level_note="trusted: Lean kernel, hand-written model, g++/libm frexp; families other than posit are added as their models land",
        explanation="conversion from float/double/long double/8..64-bit integers to posit; exact rational value of the source vs. Posit-Standard rounding relation",
        assumptions=["std::frexp / fpclassify behave as specified"],
    ),
    "C04": dict(
        harness=["h_posit"],
        streams=posit_streams("to", 6, 3000, 80000),
        proof_modules=["UVerifProofs.Props.C04"],
        level="proof",
        level_text="Lean model of to_double/to_float/to_long_double (exact under the decidable guard fbits <= mantissa, scale in normal range) and of the "
                   "integer casts (to_integer<Int>: the integer part from the decoded fields, as the code does since the repair of D23; theorem for every "
                   "configuration: truncation toward zero whenever it fits, signed types clamp); every encoding of small configurations read back and "
                   "round-tripped, encodings at / one and two posit ulps around integers for the large ones",
        level_note="trusted: Lean kernel, hand-written model, IEEE hardware arithmetic on exact products of powers of two",
        explanation="read-back of posits to float/double/long double and to short/unsigned short/int/unsigned/long long/unsigned long long, and round trip",
        assumptions=["hardware multiplication of exactly representable factors with exactly representable product is exact"],
    ),
    "C06": dict(
        harness=["h_posit", "h_hist"],
        streams=lambda tier, seed, exes: posit_streams("order", 3, 20000, 300000)(tier, seed, exes) + [
            dict(exe=exes["h_hist"], args=["3000" if tier == "quick" else "60000"], env={"VERIF_SEED": str(seed * 10 + k)},
                 label=f"operation histories then == against a fresh object (integer, fixpnt) shard {k}") for k in range(1 if tier == "quick" else 6)],
        proof_modules=["UVerifProofs.Props.C06"],
        level="proof",
        level_text="comparison operators of the model vs. the real order of the decoded values; ++/-- vs. the adjacent encoding; all ordered pairs of small configurations",
        level_note="trusted: Lean kernel, hand-written model; families other than posit are added as their models land",
        explanation="posit == != < <= > >= ++ -- on all ordered pairs of every configuration <= 8 bits and structured pairs above",
        assumptions=[],
    ),
    "C15": dict(
        harness=["h_pconv"],
        streams=lambda tier, seed, exes: (
            [dict(exe=exes["h_pconv"], args=["exh", "400"], label="posit->posit, sources <=12 bits exhaustive, larger sampled")] +
            [dict(exe=exes["h_pconv"], args=["rnd", "3000" if tier == "quick" else "60000"], env={"VERIF_SEED": str(seed * 10 + k)},
                  label=f"posit->posit structured shard {k}") for k in range(1 if tier == "quick" else 6)]),
        proof_modules=["UVerifProofs.Props.C15"],
        level="proof",
        level_text="conversion between configurations is the composition decode (exact) ; convert_ (one rounding): Lean model and the target's rounding relation; "
                   "9x9 matrix of posit configurations, every source encoding <= 12 bits",
        level_note="trusted: Lean kernel, hand-written model; other families are added as their models land",
        explanation="posit<n1,es1> -> posit<n2,es2> converting constructor and back; identity on representable values; widening then narrowing",
        assumptions=[],
    ),
    "C20": dict(
        harness=["h_posit_san", "h_quire_san", "h_pconv_san", "h_hist_san", "h_ub", "h_threads", "h_threads_tsan"],
        streams=lambda tier, seed, exes: c20_streams(tier, seed, exes),
        proof_modules=["UVerifProofs.Props.C20"],
        crash_is_violation=True,
        judge="clean",
        level="proof",
        level_text="index- and shift-safety side conditions of the modelled algorithms are Lean theorems for all configurations; canonical-form "
                   "(no bit outside the width) is checked by every spec predicate; the compiled code is additionally executed under ASan+UBSan "
                   "on the same streams (a sanitizer abort is a violation with the announced operands as replay). The data-race clause is NOT "
                   "decided by this technique (a pure functional model has no shared state): it is only validated by running identical programs "
                   "on N threads (TSan build in the thorough tier)",
        level_note="trusted: Lean kernel, hand-written model, the sanitizers' completeness on the executed paths; heap safety of std::vector-backed "
                   "elastic types and data races are outside what the theorems say",
        explanation="ASan+UBSan execution of every harness stream + thread-determinism validation + side-condition theorems",
        assumptions=["sanitizers report every UB/memory error on the executed paths"],
    ),
}


def c20_streams(tier, seed, exes):
    jobs = []
    pe = exes["h_posit_san"]
    small = [(2,0),(3,0),(3,1),(4,0),(4,2),(5,1),(5,3),(6,2),(6,4),(7,0),(7,5)]
    eight = [(8,0),(8,2),(8,5)]
    cfgs = small + (rotate(eight, seed, 1) if tier == "quick" else eight)
    for (n, es) in cfgs:
        jobs.append(dict(exe=pe, args=["exh", str(n), str(es), "0", "all"], label=f"ASan+UBSan posit<{n},{es}> exhaustive all ops"))
        jobs.append(dict(exe=pe, args=["exh", str(n), str(es), "0", "conv"], label=f"ASan+UBSan posit<{n},{es}> conversions"))
    cnt = 3000 if tier == "quick" else 100000
    for (n, es) in [(16,1),(32,2),(64,3)]:
        jobs.append(dict(exe=pe, args=["rnd", str(n), str(es), str(cnt), "all"], label=f"ASan+UBSan posit<{n},{es}> structured"))
        jobs.append(dict(exe=pe, args=["rnd", str(n), str(es), str(cnt // 10), "conv"], label=f"ASan+UBSan posit<{n},{es}> conversions"))
    qe = exes["h_quire_san"]
    for (n, es, c) in QUIRE_CFGS:
        jobs.append(dict(exe=qe, args=["hist", str(n), str(es), str(c), "150" if tier == "quick" else "4000"], label=f"ASan+UBSan quire<{n},{es},{c}> histories"))
        jobs.append(dict(exe=qe, args=["part", str(n), str(es), str(c), "300" if tier == "quick" else "8000"], label=f"ASan+UBSan quire<{n},{es},{c}> partitions"))
    jobs.append(dict(exe=exes["h_pconv_san"], args=["exh", "200"], label="ASan+UBSan posit->posit"))
    jobs.append(dict(exe=exes["h_hist_san"], args=["400" if tier == "quick" else "20000"], label="ASan+UBSan integer/fixpnt operation histories"))
    jobs.append(dict(exe=exes["h_ub"], args=[], label="UBSan probes of operations known or suspected to leave defined behaviour (forked children)"))
    jobs.append(dict(exe=exes["h_threads"], args=["8", "3000"], label="8 threads x identical programs on distinct objects"))
    if "h_threads_tsan" in exes:
        jobs.append(dict(exe=exes["h_threads_tsan"], args=["8", "1500" if tier == "quick" else "6000"], label="TSan: 8 threads x identical programs on distinct objects (cold start)"))
    return jobs
