"""props_d/text.py — C16 text forms: round trips and exact decimal output (built by the `text` worker)."""
import os

HARNESS = {
    "h_text_posit": dict(src="h_text_posit.cpp"),
    "h_text_real": dict(src="h_text_real.cpp"),
    "h_text_int": dict(src="h_text_int.cpp"),
}

# ---------------------------------------------------------------------------------------------- C16 (text forms)
TEXT_POSIT_SMALL = [(2,0),(3,0),(3,1),(4,0),(4,1),(4,2),(5,0),(5,1),(5,2),(6,0),(6,1),(6,3),(7,0),(7,1),(7,2),
                    (8,0),(8,1),(8,2),(8,3),(9,1),(9,2),(10,0),(10,2),(11,1),(11,3),(12,1),(12,2)]
TEXT_POSIT_LARGE = [(13,1),(16,1),(16,2),(20,1),(24,2),(28,3),(32,2),(32,3),(33,2),(48,2),(63,3),(64,2),(64,3),(80,2),(128,4)]
TEXT_INT_SMALL = [(4,1),(6,1),(7,1),(8,1),(9,1),(10,1),(11,1),(12,1),(8,2),(12,2),(13,2),(9,4),(12,4)]
TEXT_INT_LARGE = [(15,2),(16,1),(16,2),(16,4),(24,1),(31,4),(32,1),(32,2),(32,4),(32,8),(33,1),(63,8),(64,1),(64,4),(64,8),
                  (100,1),(100,4),(128,2),(128,4),
                  (14,2),(29,4),(30,4),(59,8),(60,8)]      # either side of 10^k < 2^nbits (operator<< working type, D19 repair)


def text_streams(tier, seed, exes):
    """C16: every encoding of every configuration <= 12 bits (13 for one integer configuration) through
    format -> parse, boundary and random digit strings; structured random encodings of the wide configurations."""
    jobs = []
    quick = tier == "quick"
    env = {"VERIF_SEED": str(seed)}
    xp, xr, xi = exes["h_text_posit"], exes["h_text_real"], exes["h_text_int"]
    for (n, es) in TEXT_POSIT_SMALL:
        jobs.append(dict(exe=xp, args=["exh", str(n), str(es)], env=env, label=f"text posit<{n},{es}> exhaustive"))
    jobs.append(dict(exe=xr, args=["exh", "cfloat"], env=env, label="text cfloat (23 configurations <= 12 bits) exhaustive"))
    jobs.append(dict(exe=xr, args=["exh", "fixpnt"], env=env, label="text fixpnt (21 configurations <= 12 bits) exhaustive"))
    for (n, by) in TEXT_INT_SMALL:
        jobs.append(dict(exe=xi, args=["exh", "integer", "0", str(n), str(by)], env=env, label=f"text integer<{n},u{8*by}> exhaustive"))
    shards = 1 if quick else 4
    cnt = 400 if quick else 100000
    for s_ in range(shards):
        e2 = {"VERIF_SEED": str(seed * 100 + s_)}
        c = str(cnt // shards)
        for (n, es) in TEXT_POSIT_LARGE:
            jobs.append(dict(exe=xp, args=["rnd", c, str(n), str(es)], env=e2, label=f"text posit<{n},{es}> structured shard {s_}"))
        for (n, by) in TEXT_INT_LARGE:
            jobs.append(dict(exe=xi, args=["rnd", "integer", c, str(n), str(by)], env=e2, label=f"text integer<{n},u{8*by}> structured shard {s_}"))
        jobs.append(dict(exe=xr, args=["rnd", "cfloat", c], env=e2, label=f"text cfloat (15 wide configurations) structured shard {s_}"))
        jobs.append(dict(exe=xr, args=["rnd", "fixpnt", c], env=e2, label=f"text fixpnt (15 wide configurations) structured shard {s_}"))
        ce = str(3000 if quick else 100000 // shards)
        jobs.append(dict(exe=xi, args=["rnd", "eint", ce], env=e2, label=f"text einteger u8/u16/u32 structured shard {s_}"))
        jobs.append(dict(exe=xi, args=["rnd", "edec", ce], env=e2, label=f"text edecimal structured shard {s_}"))
    # longest jobs first
    jobs.sort(key=lambda j: 0 if ("integer<1" in j["label"] and "structured" in j["label"]) or "fixpnt" in j["label"] else 1)
    return jobs



def replay_jobs(prop, path, exes):
    """C16: re-run the `text …` inputs of a replay / corpus file through the CURRENT headers (each TU picks its families)"""
    if prop != "C16":
        return []
    return [dict(exe=exes[h], args=["file", path], label=f"text re-run ({h}) of " + os.path.basename(path))
            for h in ("h_text_posit", "h_text_real", "h_text_int") if h in exes]


CONTRIB = {
    "C16": dict(
        harness=["h_text_posit", "h_text_real", "h_text_int"],
        streams=text_streams,
        level="proof",
        level_text="Lean theorems (all widths) about executable models of the text routines as functions on List Char: posit "
                   "hex_format/to_hex/parse, cfloat and fixpnt to_binary/assign, integer to_hex/parse/to_string/operator<<, "
                   "support::decimal add, einteger/edecimal operator<<; the compiled headers are tied to the models by "
                   "transcripts of every encoding of every configuration <= 12 bits and structured samples of wide ones, and "
                   "every implementation output is judged by spec predicates built on Lean's own decimal printer",
        level_note="trusted: Lean kernel, hand-written models (tied by correspondence on explored inputs only), std::regex / "
                   "iostream extraction contracts (transcribed: regexes reduced to their languages, num_get to prefix "
                   "parsing with clamping), g++ 12.2; the harness fixes the C locale. After the repairs of D18, D19, D20, the hex "
                   "sign and the two edecimal parse defects the integer hex round trip, integer operator<< and edecimal parse "
                   "theorems are unguarded (all widths, block widths, text lengths); the posit hex round trip still carries "
                   "nbits <= 64 (parse extracts into a uint64_t) and a leading-zero decimal text is still taken for octal: "
                   "both are known findings with negation witnesses in Props/C16.lean",
        explanation="text forms: format -> parse round trips of every encoding (posit nbits.esxHEXp, cfloat/fixpnt 0b strings, "
                    "integer 0x strings), decimal output compared with the exact decimal expansion, decimal/hex digit strings "
                    "(leading zeros, signs, maximal length, one past capacity) compared with the integer they denote mod 2^nbits",
        assumptions=["the compiled code behaves like the model on inputs that were not explored",
                     "std::regex_match, istream extraction (num_get) and ostream insertion implement their contracts",
                     "integer<nbits,uint64_t> with more than one block is not streamed through operator<< / decimal parse: "
                     "its += drops carries between 64-bit blocks (arithmetic, C08/C12)"],
        trusted=["std::regex, iostream formatting/extraction (libstdc++), C locale"],
    ),
}
