#!/bin/bash
# run_all.sh [tier] — every registered check once on the current tree; summary lines only
cd "$(dirname "$0")"
TIER=${1:-quick}
for p in $(python3 -c "import json; print(' '.join(c['property_id'] for c in json.load(open('MANIFEST.json'))['checks']))"); do
  python3 check.py $p --tier $TIER | grep -E "^(VIOLATION|C[0-9]+ \[)" 
done
